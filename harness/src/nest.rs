//! One level of nesting (combinators as children of combinators).
use crate::cuts::Cut;

pub fn build(fam: &str, cont: &str, n: usize) -> Result<Box<dyn Cut>, String> {
    Err(format!("unsupported nest {}/{}/{}", fam, cont, n))
}
