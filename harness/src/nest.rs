//! One level of nesting (combinators as children of combinators).  The scripted children are the
//! leaves; the inner combinators are not instrumented themselves - the monitors see the leaves being
//! polled with the inner combinators' sub-wakers and the outer combinator's results.
//!
//!   nest_join_join    (join[c0, c1], c2).join()                         outer tuple join, inner array join
//!   nest_join_merge   (collect(merge[s0, s1]), c2).join()               a future draining a merge, joined with a future
//!   nest_merge_groups [StreamGroup{s0, s1}, StreamGroup{s2}].merge()    merge of stream groups
//!   nest_group_join   FutureGroup{ join[c0, c1], join[c2] }             a group whose members are joins
//!   nest_race_join    (first(join[c0, c1]), c2).race()                  race between a join and a future
//!   nest_chain_merge  (merge[s0, s1], s2).chain()                       chain whose first input is a merge
//!   nest_merge_merge  (merge[s0, s1], s2).merge()                       tuple merge whose first input is an array merge (L2: NestStream.tla)

use std::future::Future;
use std::pin::Pin;
use std::task::{Context, Poll};

use futures_concurrency::future::FutureGroup;
use futures_concurrency::prelude::*;
use futures_concurrency::stream::StreamGroup;
use futures_core::Stream;

use crate::cuts::{fut_cut, stream_cut, Cut, RetEv};
use crate::script::{Child, SFut, SStream, Val};

/// Drains a stream into a Vec.
struct Collect<S: Stream> {
    s: Pin<Box<S>>,
    out: Vec<S::Item>,
}
impl<S: Stream> Future for Collect<S>
where
    S::Item: Unpin,
{
    type Output = Vec<S::Item>;
    fn poll(mut self: Pin<&mut Self>, cx: &mut Context<'_>) -> Poll<Self::Output> {
        loop {
            match self.s.as_mut().poll_next(cx) {
                Poll::Pending => return Poll::Pending,
                Poll::Ready(None) => return Poll::Ready(std::mem::take(&mut self.out)),
                Poll::Ready(Some(x)) => self.out.push(x),
            }
        }
    }
}

/// Maps the output of a future.
struct MapOut<F: Future, T> {
    f: Pin<Box<F>>,
    g: fn(F::Output) -> T,
}
impl<F: Future, T> Future for MapOut<F, T> {
    type Output = T;
    fn poll(mut self: Pin<&mut Self>, cx: &mut Context<'_>) -> Poll<T> {
        match self.f.as_mut().poll(cx) {
            Poll::Pending => Poll::Pending,
            Poll::Ready(o) => Poll::Ready((self.g)(o)),
        }
    }
}

fn sf(c: usize) -> SFut {
    SFut(Child::new(c))
}
fn ss(c: usize) -> SStream {
    SStream(Child::new(c))
}

fn rel(v: Vec<Val>) -> Vec<i64> {
    v.iter().map(|x| x.release()).collect()
}

pub fn build(fam: &str, _cont: &str, _n: usize) -> Result<Box<dyn Cut>, String> {
    let cut: Box<dyn Cut> = match fam {
        "nest_join_join" => {
            let inner = [sf(0), sf(1)].join();
            fut_cut((inner, sf(2)).join(), |(a, c): ([Val; 2], Val)| {
                let mut out: Vec<i64> = a.iter().map(|x| x.release()).collect();
                out.push(c.release());
                RetEv::ready_out(true, out)
            })
        }
        "nest_join_merge" => {
            let m = Collect { s: Box::pin([ss(0), ss(1)].merge()), out: vec![] };
            fut_cut((m, sf(2)).join(), |(items, c): (Vec<Val>, Val)| {
                let mut out = rel(items);
                out.push(c.release());
                RetEv::ready_out(true, out)
            })
        }
        "nest_merge_groups" => {
            let mut g0 = StreamGroup::new();
            g0.insert(ss(0));
            g0.insert(ss(1));
            let mut g1 = StreamGroup::new();
            g1.insert(ss(2));
            stream_cut([g0, g1].merge(), |i: Val| RetEv::some_v(i.release(), -1))
        }
        "nest_group_join" => {
            let mut g = FutureGroup::new();
            g.insert(vec![sf(0), sf(1)].join());
            g.insert(vec![sf(2)].join());
            stream_cut(g, |v: Vec<Val>| RetEv::some_out(rel(v)))
        }
        "nest_race_join" => {
            let j = MapOut { f: Box::pin([sf(0), sf(1)].join()), g: |a: [Val; 2]| a.into_iter().collect::<Vec<Val>>() };
            let single = MapOut { f: Box::pin(sf(2)), g: |v: Val| vec![v] };
            // both arms have the same output type behind a box
            let arms: Vec<Pin<Box<dyn Future<Output = Vec<Val>>>>> = vec![Box::pin(j), Box::pin(single)];
            fut_cut(arms.race(), |v: Vec<Val>| RetEv::ready_out(true, rel(v)))
        }
        "nest_merge_merge" => {
            let inner = [ss(0), ss(1)].merge();
            stream_cut((inner, ss(2)).merge(), |i: Val| RetEv::some_v(i.release(), -1))
        }
        "nest_chain_merge" => {
            let m: Pin<Box<dyn Stream<Item = Val>>> = Box::pin([ss(0), ss(1)].merge());
            let s: Pin<Box<dyn Stream<Item = Val>>> = Box::pin(ss(2));
            stream_cut(vec![m, s].chain(), |i: Val| RetEv::some_v(i.release(), -1))
        }
        _ => return Err(format!("unsupported nest {}", fam)),
    };
    Ok(cut)
}
