mod co;
mod cuts;
mod exec;
mod gen;
#[cfg(feature = "alloc")]
mod groups;
#[cfg(feature = "alloc")]
mod nest;
mod script;
mod threads;
mod world;

use std::io::{BufRead, BufReader, BufWriter, Write};

fn arg(args: &[String], name: &str) -> Option<String> {
    args.iter().position(|a| a == name).and_then(|i| args.get(i + 1).cloned())
}

fn main() {
    // keep the default panic hook quiet: panics of the code under test are data
    std::panic::set_hook(Box::new(|_| {}));
    let args: Vec<String> = std::env::args().collect();
    let mode = args.get(1).map(|s| s.as_str()).unwrap_or("");
    match mode {
        "feat" => println!("{}", exec::feat()),
        "run" => {
            let vf = arg(&args, "--vectors").expect("--vectors");
            let of = arg(&args, "--out").expect("--out");
            let rdr = BufReader::new(std::fs::File::open(&vf).expect("open vectors"));
            let mut out = BufWriter::new(std::fs::File::create(&of).expect("create out"));
            let mut n = 0u64;
            for line in rdr.lines() {
                let line = line.unwrap();
                if line.trim().is_empty() {
                    continue;
                }
                let v: exec::Vector = match serde_json::from_str(&line) {
                    Ok(v) => v,
                    Err(e) => {
                        eprintln!("bad vector: {}", e);
                        std::process::exit(2);
                    }
                };
                let t = exec::run_vector(&v);
                out.write_all(t.as_bytes()).unwrap();
                n += 1;
            }
            out.flush().unwrap();
            println!("ran {} vectors", n);
        }
        "random" => {
            // --spec fam:cont:n[,fam:cont:n...] --count K --seed S --out TRACE --vec-out FILE [--profile P]
            let spec = arg(&args, "--spec").expect("--spec");
            let count: u64 = arg(&args, "--count").map(|s| s.parse().unwrap()).unwrap_or(100);
            let seed: u64 = arg(&args, "--seed").map(|s| s.parse().unwrap()).unwrap_or(1);
            let of = arg(&args, "--out").expect("--out");
            let profile = arg(&args, "--profile").unwrap_or_else(|| "mixed".into());
            let mut out = BufWriter::new(std::fs::File::create(&of).expect("create out"));
            let mut vout = arg(&args, "--vec-out").map(|f| BufWriter::new(std::fs::File::create(f).expect("vec-out")));
            let specs: Vec<(String, String, usize)> = spec
                .split(',')
                .filter(|s| !s.is_empty())
                .map(|s| {
                    let p: Vec<&str> = s.split(':').collect();
                    (p[0].to_string(), p[1].to_string(), p[2].parse().unwrap())
                })
                .collect();
            let mut n = 0u64;
            for (si, (fam, cont, nn)) in specs.iter().enumerate() {
                // batch runs of concurrent streams (n = 999) are long: half of the count, at most 600 (one TraceMon process folds all runs of a job)
                let cnt = if fam == "co" && *nn == 999 { std::cmp::min(600, std::cmp::max(1, count / 2)) } else { count };
                for i in 0..cnt {
                    let mut rng = gen::Rng::new(seed ^ ((si as u64) << 40) ^ (i.wrapping_mul(0x9E3779B97F4A7C15)));
                    let id = format!("r-{}-{}-{}-{}-{}-{}", exec::feat(), fam, cont, nn, seed, i);
                    // n = 999 with a Vec container: a length drawn per vector
                    // (race and zip are stated for one or more children)
                    let len = if *nn == 999 && cont == "vec" {
                        std::cmp::max(gen::pick_len(&mut rng), if fam == "race" || fam == "zip" { 1 } else { 0 })
                    } else {
                        *nn
                    };
                    let v = gen::gen_vector(&mut rng, id, fam, cont, len, &profile);
                    if let Some(vo) = vout.as_mut() {
                        serde_json::to_writer(&mut *vo, &v).unwrap();
                        vo.write_all(b"\n").unwrap();
                    }
                    let t = exec::run_vector(&v);
                    out.write_all(t.as_bytes()).unwrap();
                    n += 1;
                }
            }
            out.flush().unwrap();
            if let Some(mut vo) = vout {
                vo.flush().unwrap();
            }
            println!("ran {} vectors", n);
        }
        _ => {
            eprintln!("usage: fcv feat | run --vectors F --out T | random --spec .. --count K --seed S --out T [--vec-out F]");
            std::process::exit(2);
        }
    }
}
