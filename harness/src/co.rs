//! Concurrent-stream cuts (alloc / std only): source (`co()` or `Vec::into_co_stream`),
//! adapter stacks of depth <= 3 from {map, enumerate, take, limit}, terminal operations
//! for_each / try_for_each / collect / collect::<Result<Vec<_>,_>>.

use crate::cuts::Cut;
use crate::exec::Vector;

#[cfg(not(feature = "alloc"))]
pub fn build(v: &Vector) -> Result<Box<dyn Cut>, String> {
    Err(format!("co-streams need alloc: {}", v.term))
}

#[cfg(not(feature = "alloc"))]
pub fn gen_vector(_rng: &mut crate::gen::Rng, id: String, cont: &str, n: usize, _profile: &str) -> Vector {
    Vector { id, fam: "co".into(), cont: cont.into(), n, scripts: vec![], cmds: vec![], x: -1, limit: 0, stack: vec![], term: String::new(), src: String::new() }
}

#[cfg(not(feature = "alloc"))]
pub fn effective(_stack: &[serde_json::Value]) -> (i64, usize) {
    (-1, 0)
}

#[cfg(feature = "alloc")]
pub use imp::{build, effective, gen_vector};

#[cfg(feature = "alloc")]
mod imp {
    use std::future::Future;
    use std::num::NonZeroUsize;
    use std::pin::Pin;
    use std::task::{Context, Poll};

    use futures_concurrency::prelude::*;
    use futures_core::Stream;
    use serde_json::{json, Value};

    use crate::cuts::{fut_cut, Cut, RetEv};
    use crate::exec::{ScriptS, StepS, Vector};
    use crate::gen::Rng;
    use crate::script::{Child, Out, RFut, SStream, UFut, Val};
    use crate::world::with;

    pub struct It {
        pub v: Val,
        pub src: i64,
        pub idx: i64,
    }

    #[derive(Clone, Debug)]
    enum Ad {
        Map,
        Enumerate,
        Take(usize),
        Limit(usize),
    }

    fn parse_stack(stack: &[Value]) -> Result<Vec<Ad>, String> {
        let mut out = vec![];
        for a in stack {
            if let Some(s) = a.as_str() {
                match s {
                    "map" => out.push(Ad::Map),
                    "enumerate" => out.push(Ad::Enumerate),
                    _ => return Err(format!("bad adapter {}", s)),
                }
            } else if let Some(arr) = a.as_array() {
                let name = arr.first().and_then(|x| x.as_str()).unwrap_or("");
                // "max" / "big": counts no source can reach (usize::MAX, 2^40)
                let n = match arr.get(1) {
                    Some(x) if x.as_str() == Some("max") => usize::MAX,
                    Some(x) if x.as_str() == Some("big") => 1usize << 40,
                    Some(x) => x.as_u64().unwrap_or(0) as usize,
                    None => 0,
                };
                match name {
                    "take" => out.push(Ad::Take(n)),
                    "limit" => out.push(Ad::Limit(n)),
                    _ => return Err(format!("bad adapter {}", name)),
                }
            }
        }
        if out.len() > 3 {
            return Err("stack deeper than 3".into());
        }
        Ok(out)
    }

    /// effective take (min over take adapters, -1 none) and limit (outermost limit adapter, 0 unlimited)
    pub fn effective(stack: &[Value]) -> (i64, usize) {
        let mut take: i64 = -1;
        let mut limit = 0usize;
        if let Ok(ads) = parse_stack(stack) {
            for a in ads {
                match a {
                    Ad::Take(n) => {
                        // (reported capped: the monitors run on 32-bit integers)
                        let n = std::cmp::min(n, 1_000_000) as i64;
                        take = if take < 0 { n } else { take.min(n) };
                    }
                    Ad::Limit(n) => limit = n,
                    _ => {}
                }
            }
        }
        (take, limit)
    }

    struct ItStream(SStream);
    impl Stream for ItStream {
        type Item = It;
        fn poll_next(mut self: Pin<&mut Self>, cx: &mut Context<'_>) -> Poll<Option<It>> {
            match Pin::new(&mut self.0).poll_next(cx) {
                Poll::Pending => Poll::Pending,
                Poll::Ready(None) => Poll::Ready(None),
                Poll::Ready(Some(v)) => {
                    let src = v.id as i64;
                    Poll::Ready(Some(It { v, src, idx: -1 }))
                }
            }
        }
        fn size_hint(&self) -> (usize, Option<usize>) {
            self.0.size_hint()
        }
    }

    fn next_work() -> usize {
        with(|w| {
            let c = w.next_work;
            w.next_work += 1;
            w.ensure_child(c);
            // scripts beyond those given default to "ready at once"
            while w.scripts.len() <= c {
                w.scripts.push(crate::world::Script { steps: vec![], tail: "done".into(), tail_ok: true, hint: 0 });
            }
            c
        })
    }

    /// A user closure was invoked with `it`: the item now belongs to caller code.
    fn closure_called(layer: i64, it: &It) -> usize {
        let c = next_work();
        let vid = it.v.release();
        with(|w| {
            if layer >= 0 {
                w.ev(format_args!("{{\"e\":\"mapcall\",\"layer\":{},\"src\":{},\"v\":{}}}", layer, it.src, vid));
            }
            w.ev(format_args!(
                "{{\"e\":\"wnew\",\"c\":{},\"layer\":{},\"src\":{},\"v\":{},\"idx\":{}}}",
                c, layer, it.src, vid, it.idx
            ));
        });
        c
    }

    /// The future a `map` closure returns: resolves to a new item derived from the input.
    pub struct MapWork {
        child: Child,
        src: i64,
        idx: i64,
    }
    impl Future for MapWork {
        type Output = It;
        fn poll(mut self: Pin<&mut Self>, cx: &mut Context<'_>) -> Poll<It> {
            match self.child.step(cx, false) {
                Out::Ready { v, .. } => Poll::Ready(It { v, src: self.src, idx: self.idx }),
                _ => Poll::Pending,
            }
        }
    }

    /// fallible variant (collect into Result)
    pub struct TryMapWork {
        child: Child,
        src: i64,
        idx: i64,
    }
    impl Future for TryMapWork {
        type Output = Result<It, Val>;
        fn poll(mut self: Pin<&mut Self>, cx: &mut Context<'_>) -> Poll<Result<It, Val>> {
            match self.child.step(cx, false) {
                Out::Ready { ok: true, v } => Poll::Ready(Ok(It { v, src: self.src, idx: self.idx })),
                Out::Ready { ok: false, v } => Poll::Ready(Err(v)),
                _ => Poll::Pending,
            }
        }
    }

    fn mapf(layer: i64) -> impl Fn(It) -> MapWork + Clone {
        move |it: It| {
            let c = closure_called(layer, &it);
            MapWork { child: Child::new_infallible(c, false), src: it.src, idx: it.idx }
        }
    }

    type BoxFut = Pin<Box<dyn Future<Output = RetEv>>>;

    fn term<CS>(cs: CS, term: &str) -> Result<BoxFut, String>
    where
        CS: ConcurrentStream<Item = It> + 'static,
    {
        // what the assembled concurrent stream reports about itself before it is driven: the size hint as plumbed
        // through the adapter stack and the effective concurrency limit (numbers no source can reach are capped:
        // the specifications run on 32-bit integers)
        let cap = |x: usize| std::cmp::min(x, 1_000_000) as i64;
        let (lo, hi) = cs.size_hint();
        let lim = cs.concurrency_limit().map(|n| n.get()).unwrap_or(0);
        with(|w| {
            let (slo, shi) = w.co_src;
            w.ev(format_args!(
                "{{\"e\":\"coview\",\"slo\":{},\"shi\":{},\"lo\":{},\"hi\":{},\"lim\":{}}}",
                cap(slo),
                shi.map(cap).unwrap_or(-1),
                cap(lo),
                hi.map(cap).unwrap_or(-1),
                cap(lim)
            ));
        });
        Ok(match term {
            "for_each" => Box::pin(async move {
                cs.for_each(|it: It| {
                    let c = closure_called(-1, &it);
                    UFut(Child::new_infallible(c, true))
                })
                .await;
                RetEv::ready_out(true, vec![])
            }),
            "try_for_each" => Box::pin(async move {
                let r = cs
                    .try_for_each(|it: It| {
                        let c = closure_called(-1, &it);
                        RFut(Child::new_unit(c))
                    })
                    .await;
                match r {
                    Ok(()) => RetEv::ready_out(true, vec![]),
                    Err(e) => RetEv::ready_v(false, e.release()),
                }
            }),
            "collect" => Box::pin(async move {
                let v: Vec<It> = cs.collect().await;
                RetEv::ready_out(true, v.iter().map(|it| it.v.release()).collect())
            }),
            "collect_result" => Box::pin(async move {
                let r: Result<Vec<It>, Val> = cs
                    .map(|it: It| {
                        let c = closure_called(-1, &it);
                        TryMapWork { child: Child::new(c), src: it.src, idx: it.idx }
                    })
                    .collect()
                    .await;
                match r {
                    Ok(v) => RetEv::ready_out(true, v.iter().map(|it| it.v.release()).collect()),
                    Err(e) => RetEv::ready_v(false, e.release()),
                }
            }),
            _ => return Err(format!("bad terminal {}", term)),
        })
    }

    macro_rules! level {
        ($name:ident, $next:ident) => {
            fn $name<CS>(cs: CS, stack: &[Ad], layer: i64, t: &str) -> Result<BoxFut, String>
            where
                CS: ConcurrentStream<Item = It> + 'static,
            {
                match stack.split_first() {
                    None => term(cs, t),
                    Some((ad, rest)) => match ad {
                        Ad::Map => $next(cs.map(mapf(layer)), rest, layer + 1, t),
                        Ad::Enumerate => $next(
                            cs.enumerate().map(|(i, it): (usize, It)| {
                                core::future::ready(It { v: it.v, src: it.src, idx: i as i64 })
                            }),
                            rest,
                            layer,
                            t,
                        ),
                        Ad::Take(n) => $next(cs.take(*n), rest, layer, t),
                        Ad::Limit(n) => $next(cs.limit(NonZeroUsize::new(*n)), rest, layer, t),
                    },
                }
            }
        };
    }

    fn lvl0<CS>(cs: CS, stack: &[Ad], _layer: i64, t: &str) -> Result<BoxFut, String>
    where
        CS: ConcurrentStream<Item = It> + 'static,
    {
        if !stack.is_empty() {
            return Err("stack too deep".into());
        }
        term(cs, t)
    }
    level!(lvl1, lvl0);
    level!(lvl2, lvl1);
    level!(lvl3, lvl2);

    pub fn build(v: &Vector) -> Result<Box<dyn Cut>, String> {
        let stack = parse_stack(&v.stack)?;
        let fut = match v.cont.as_str() {
            "co" => {
                let s = ItStream(SStream(Child::new(0)));
                let sh = s.size_hint();
                with(|w| w.co_src = sh);
                lvl3(s.co(), &stack, 0, &v.term)?
            }
            "vec" => {
                // items handed in at construction: announced as answers of child 0
                let mut items = vec![];
                for i in 0..v.n {
                    let id = i as u64;
                    let val = Val::new(id);
                    with(|w| {
                        w.ev(format_args!(
                            "{{\"e\":\"cret\",\"c\":0,\"k\":{},\"r\":\"some\",\"ok\":true,\"v\":{}}}",
                            i, id
                        ))
                    });
                    items.push(It { v: val, src: id as i64, idx: -1 });
                }
                with(|w| {
                    w.ev(format_args!(
                        "{{\"e\":\"cret\",\"c\":0,\"k\":{},\"r\":\"none\",\"ok\":true,\"v\":-1}}",
                        v.n
                    ));
                    // the source "child" is not an object the combinator owns
                    w.alive[0] = false;
                });
                let cs = items.into_co_stream();
                let sh = cs.size_hint();
                with(|w| w.co_src = sh);
                lvl3(cs, &stack, 0, &v.term)?
            }
            c => return Err(format!("bad co source {}", c)),
        };
        Ok(fut_cut(fut, |r| r))
    }

    fn step(r: &str) -> StepS {
        StepS { r: r.into(), ok: true, fires: vec![] }
    }

    /// "Batch" runs (n = 999, or a Vec source longer than 12): source lengths next to the sizes at which third-party and
    /// cooperative machinery changes behaviour (futures-buffered grows its slot map at 32 / 96, budgets of 32 / 64 polls,
    /// bit-set blocks), every closure future pending once so that dozens are in flight, and all owed wake-ups delivered
    /// together (`settle_all`), so that one poll of the driver sees dozens of completions back to back - with at most one
    /// failure, at any position among them.  A purely random script never gets there.
    fn gen_batch(rng: &mut Rng, id: String, cont: &str, n0: usize, profile: &str) -> Vector {
        const EDGES: [usize; 14] = [15, 16, 17, 31, 32, 33, 34, 63, 64, 65, 66, 95, 96, 97];
        let n = if n0 == 999 { EDGES[rng.below(EDGES.len() as u64) as usize] } else { n0 };
        let mut stack: Vec<Value> = vec![];
        match rng.below(8) {
            0 => stack.push(json!("map")),
            1 => stack.push(json!("enumerate")),
            2 => {
                let l = [31u64, 32, 33, 64, 65][rng.below(5) as usize];
                stack.push(json!(["limit", l]))
            }
            3 => {
                let t = [31u64, 32, 33, 64][rng.below(4) as usize];
                stack.push(json!(["take", t]))
            }
            _ => {}
        }
        let term = match profile {
            "for_each" => "for_each",
            "try" => ["try_for_each", "collect_result"][rng.below(2) as usize],
            "collect" => "collect",
            _ => ["for_each", "try_for_each", "collect", "collect_result"][rng.below(4) as usize],
        }
        .to_string();
        let fallible = term == "try_for_each" || term == "collect_result";
        // source: j items at once, one Pending (woken with everything else), the rest at once
        // "budget" pattern (a quarter of the fallible runs): exactly a block of 32 / 64 in flight, the failure at the
        // last position of a block of completions, at least two more items behind the source's Pending
        let budget_run = fallible && n >= 34 && rng.chance(25);
        let bj = if n >= 66 && rng.chance(30) { 64 } else { [32usize, 33][rng.below(2) as usize] };
        let budget_bad = [bj - 1, bj, bj, bj + 1][rng.below(4) as usize];
        // (32 and 64 items in flight when the next one arrives: the slot map is exactly full)
        let j = if budget_run { bj } else { match rng.below(20) {
            0..=5 if n > 32 => 32,
            6..=7 if n > 64 => 64,
            8..=10 => n,
            11..=13 => n.saturating_sub(1),
            14..=16 => n.saturating_sub(2 + rng.below(3) as usize),
            _ => std::cmp::min(n, EDGES[rng.below(EDGES.len() as u64) as usize]),
        } };
        let mut steps = vec![];
        for i in 0..n {
            if i == j {
                steps.push(step("p"));
            }
            steps.push(step("s"));
        }
        if j >= n && rng.chance(50) {
            steps.push(step("p"));
        }
        let hint = if rng.chance(50) { 0 } else { 1 + rng.below(3) as u8 };
        let mut scripts = vec![ScriptS { steps, tail: "done".into(), tail_ok: true, hint }];
        let nwork = n * 2 + 2;
        // at most one failure, at any position
        // (closure futures are created, woken and hence completed in index order: the k-th completion of the batch is child k)
        let bad = if budget_run {
            budget_bad
        } else if !fallible || rng.chance(25) {
            0
        } else if rng.chance(20) {
            1 + rng.below(2) as usize
        } else if rng.chance(60) {
            let e = EDGES[rng.below(EDGES.len() as u64) as usize];
            if e <= n + 1 { e } else { 1 + rng.below(n as u64 + 1) as usize }
        } else {
            1 + rng.below(std::cmp::min(nwork, n + 1) as u64) as usize
        };
        let eager_pct = [0u64, 0, 10, 50][rng.below(4) as usize];
        for c in 1..=nwork {
            let steps = if rng.chance(eager_pct) { vec![] } else { vec![step("p")] };
            scripts.push(ScriptS { steps, tail: "done".into(), tail_ok: c != bad, hint: 0 });
        }
        let mut cmds = vec![json!(["poll"])];
        if profile == "drop" || rng.chance(8) {
            cmds.push(json!(["settle_all"]));
            cmds.insert(1 + rng.below(2) as usize, json!(["drop"]));
        } else {
            cmds.push(json!([if rng.chance(85) { "settle_all" } else { "settle" }]));
        }
        let (_take, limit) = effective(&stack);
        Vector { id, fam: "co".into(), cont: cont.into(), n, scripts, cmds, x: -1, limit, stack, term, src: cont.into() }
    }

    pub fn gen_vector(rng: &mut Rng, id: String, cont: &str, n: usize, profile: &str) -> Vector {
        if (n == 999 || n > 12) && profile != "panic" && profile != "threads" {
            return gen_batch(rng, id, cont, n, profile);
        }
        let n = if n == 999 { 6 } else { n };
        // stack
        let depth = rng.below(4) as usize;
        let mut stack: Vec<Value> = vec![];
        for _ in 0..depth {
            match rng.below(4) {
                0 => stack.push(json!("map")),
                1 => stack.push(json!("enumerate")),
                2 => match rng.below(9) {
                    0 => stack.push(json!(["take", "max"])),
                    1 => stack.push(json!(["take", "big"])),
                    _ => stack.push(json!(["take", rng.below(5)])),
                },
                _ => stack.push(json!(["limit", rng.below(4)])),
            }
        }
        let term = match profile {
            "for_each" => "for_each",
            "try" => ["try_for_each", "collect_result"][rng.below(2) as usize],
            "collect" => "collect",
            _ => ["for_each", "try_for_each", "collect", "collect_result"][rng.below(4) as usize],
        }
        .to_string();
        let fallible = term == "try_for_each" || term == "collect_result";
        // source script (for "co"): n items with pendings in between
        let mut scripts = vec![];
        let mut steps = vec![];
        for _ in 0..n {
            while rng.chance(30) {
                let mut s = step("p");
                if rng.chance(30) {
                    s.fires.push((-2, -1));
                }
                steps.push(s);
            }
            steps.push(step("s"));
        }
        while rng.chance(20) {
            steps.push(step("p"));
        }
        // what the source stream reports as its size hint (collect sizes its output from it)
        let hint = if rng.chance(50) { 0 } else { 1 + rng.below(3) as u8 };
        scripts.push(ScriptS { steps, tail: "done".into(), tail_ok: true, hint });
        // work scripts: enough for n items x (map layers + terminal)
        let nwork = n * 4 + 2;
        let err_pct = if fallible { [0, 15, 40][rng.below(3) as usize] } else { 0 };
        for _ in 0..nwork {
            let mut steps = vec![];
            for _ in 0..rng.below(3) {
                let mut s = step("p");
                if rng.chance(25) {
                    s.fires.push((-2, -1));
                }
                if rng.chance(10) {
                    s.fires.push((rng.below(nwork as u64 + 1) as i64, -1));
                }
                steps.push(s);
            }
            let ok = !rng.chance(err_pct);
            scripts.push(ScriptS { steps, tail: "done".into(), tail_ok: ok, hint: 0 });
        }
        // a panic injected at one poll of the source or of a closure future (C02: unwinding out of the driver)
        if profile == "panic" {
            let c = rng.below(std::cmp::min(nwork as u64, 4) + 1) as usize;
            let at = rng.below(scripts[c].steps.len() as u64 + 1) as usize;
            scripts[c].steps.insert(at, step("x"));
        }
        // commands
        let mut cmds = vec![];
        let len = rng.below(10);
        for _ in 0..len {
            let d = rng.below(100);
            if d < 40 {
                cmds.push(json!(["poll"]));
            } else if d < 80 {
                cmds.push(json!(["fire", rng.below(nwork as u64 + 1), -1]));
            } else if d < 88 {
                cmds.push(json!(["fire", rng.below(nwork as u64 + 1), rng.below(2)]));
            } else {
                cmds.push(json!(["run"]));
            }
        }
        if profile == "threads" {
            // other threads fire the wakers handed to the source and to the closure futures while the owner
            // thread runs the wake-only executor
            cmds = vec![json!(["poll"]), json!(["threads", 1 + rng.below(3), 10 + rng.below(40), rng.next() % 1000000])];
        }
        if (profile == "drop" || rng.chance(15)) && !cmds.is_empty() && profile != "threads" {
            let at = rng.below(cmds.len() as u64 + 1) as usize;
            cmds.insert(at, json!(["drop"]));
        }
        if rng.chance(90) {
            cmds.push(json!([if rng.chance(30) { "settle_all" } else { "settle" }]));
        }
        let (_take, limit) = effective(&stack);
        Vector { id, fam: "co".into(), cont: cont.into(), n, scripts, cmds, x: -1, limit, stack, term, src: cont.into() }
    }
}
