//! Concurrent-stream cuts (alloc / std only).
use crate::cuts::Cut;
use crate::exec::Vector;

pub fn build(v: &Vector) -> Result<Box<dyn Cut>, String> {
    Err(format!("co-streams not built yet: {}", v.term))
}

pub fn gen_vector(_rng: &mut crate::gen::Rng, id: String, cont: &str, n: usize, _profile: &str) -> Vector {
    Vector { id, fam: "co".into(), cont: cont.into(), n, scripts: vec![], cmds: vec![], x: -1, limit: 0, stack: vec![], term: String::new(), src: String::new() }
}
