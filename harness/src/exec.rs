//! Vector format and the command interpreter (the "caller / executor" of the model).

use std::panic::{catch_unwind, AssertUnwindSafe};
use std::task::{Context, Waker};

use serde::{Deserialize, Serialize};
use serde_json::Value;

use crate::cuts::{self, Cut, Op, OpRes, RetEv};
use crate::world::{self, with, Ans, Script, World};

pub fn feat() -> &'static str {
    if cfg!(feature = "std") {
        "std"
    } else if cfg!(feature = "alloc") {
        "alloc"
    } else {
        "none"
    }
}

#[derive(Clone, Debug, Deserialize, Serialize)]
pub struct Vector {
    pub id: String,
    pub fam: String,
    pub cont: String,
    pub n: usize,
    pub scripts: Vec<ScriptS>,
    pub cmds: Vec<Value>,
    /// designated always-ready input for the fairness monitor (-1: none)
    #[serde(default = "neg1")]
    pub x: i64,
    /// concurrent streams: limit (0 = unlimited), adapter stack, terminal operation
    #[serde(default)]
    pub limit: usize,
    #[serde(default)]
    pub stack: Vec<Value>,
    #[serde(default)]
    pub term: String,
    #[serde(default)]
    pub src: String,
}
fn neg1() -> i64 {
    -1
}

/// Serialisable mirror of `world::Script`.
#[derive(Clone, Debug, Deserialize, Serialize)]
pub struct ScriptS {
    #[serde(default)]
    pub steps: Vec<StepS>,
    #[serde(default = "ddone")]
    pub tail: String,
    #[serde(default = "dtrue")]
    pub tail_ok: bool,
    #[serde(default, skip_serializing_if = "is_zero")]
    pub hint: u8,
}
fn is_zero(x: &u8) -> bool {
    *x == 0
}
#[derive(Clone, Debug, Deserialize, Serialize)]
pub struct StepS {
    pub r: String,
    #[serde(default = "dtrue", skip_serializing_if = "is_true")]
    pub ok: bool,
    #[serde(default, skip_serializing_if = "Vec::is_empty")]
    pub fires: Vec<(i64, i64)>,
}
fn is_true(b: &bool) -> bool {
    *b
}
fn dtrue() -> bool {
    true
}
fn ddone() -> String {
    "done".into()
}

impl ScriptS {
    pub fn to_world(&self) -> Script {
        Script {
            steps: self
                .steps
                .iter()
                .map(|s| world::Step { r: s.r.clone(), ok: s.ok, fires: s.fires.clone() })
                .collect(),
            tail: self.tail.clone(),
            tail_ok: self.tail_ok,
            hint: self.hint,
        }
    }
}

pub struct Exec {
    pub cut: Option<Box<dyn Cut>>,
    pub finished: bool,
    pub last_item: bool,
    pub needs_poll: bool,
    pub is_group: bool,
    pub cur: Option<(i64, Waker)>,
    pub keys: Vec<i64>,
    pub next_child: usize,
    pub npolls: u64,
    /// a group operation has been carried out
    pub touched: bool,
}

fn ev_ret(w: &mut World, r: &RetEv) {
    let out: Vec<String> = r.out.iter().map(|x| x.to_string()).collect();
    w.ev(format_args!(
        "{{\"e\":\"ret\",\"r\":\"{}\",\"ok\":{},\"v\":{},\"out\":[{}],\"key\":{}}}",
        r.r,
        r.ok,
        r.v,
        out.join(","),
        r.key
    ));
}

impl Exec {
    pub fn poll(&mut self, reuse: bool) {
        if self.cut.is_none() || self.finished {
            return;
        }
        let (g, wk) = match (&self.cur, reuse) {
            (Some((g, wk)), true) => (*g, wk.clone()),
            _ => world::new_parent(),
        };
        // a re-used waker counts as "latest" again: clear its woken flag
        with(|w| {
            w.woken[g as usize] = false;
            w.ev(format_args!("{{\"e\":\"poll\",\"g\":{}}}", g));
        });
        self.cur = Some((g, wk.clone()));
        self.needs_poll = false;
        self.npolls += 1;
        let cut = self.cut.as_mut().unwrap();
        let res = catch_unwind(AssertUnwindSafe(|| {
            let mut cx = Context::from_waker(&wk);
            cut.poll(&mut cx)
        }));
        match res {
            Ok(r) => {
                with(|w| ev_ret(w, &r));
                self.last_item = r.r == "some";
                if r.is_final() {
                    if self.is_group {
                        // a group can be refilled after None
                        self.last_item = false;
                    } else {
                        self.finished = true;
                    }
                }
            }
            Err(_) => {
                with(|w| w.ev(format_args!("{{\"e\":\"panic\",\"at\":\"poll\"}}")));
                self.finished = true;
                self.drop_cut();
            }
        }
    }

    /// Poll once more after the final result. What such a poll returns is unspecified (many
    /// combinators assert), but no child may be polled by it.
    pub fn repoll(&mut self) {
        if self.cut.is_none() || !self.finished {
            return;
        }
        let (g, wk) = world::new_parent();
        with(|w| w.ev(format_args!("{{\"e\":\"repoll\",\"g\":{}}}", g)));
        self.cur = Some((g, wk.clone()));
        let cut = self.cut.as_mut().unwrap();
        let res = catch_unwind(AssertUnwindSafe(|| {
            let mut cx = Context::from_waker(&wk);
            cut.poll(&mut cx)
        }));
        match res {
            Ok(r) => with(|w| w.ev(format_args!("{{\"e\":\"reret\",\"r\":\"{}\"}}", r.r))),
            Err(_) => {
                with(|w| w.ev(format_args!("{{\"e\":\"panic\",\"at\":\"repoll\"}}")));
                self.drop_cut();
            }
        }
    }

    pub fn drop_cut(&mut self) {
        if let Some(cut) = self.cut.take() {
            with(|w| w.ev(format_args!("{{\"e\":\"drop\"}}")));
            let r = catch_unwind(AssertUnwindSafe(move || drop(cut)));
            with(|w| {
                if r.is_err() {
                    w.ev(format_args!("{{\"e\":\"panic\",\"at\":\"drop\"}}"));
                }
                w.ev(format_args!("{{\"e\":\"dropped\"}}"));
            });
        }
    }

    pub fn should_poll(&self) -> bool {
        self.needs_poll || self.last_item || self.woken_latest()
    }

    fn woken_latest(&self) -> bool {
        match &self.cur {
            None => false,
            Some((g, _)) => with(|w| w.woken[*g as usize]),
        }
    }

    /// wake-only executor: poll first, after the latest waker was invoked, right after an
    /// item, and after a group operation.
    pub fn run(&mut self) {
        let mut budget = 100_000;
        while budget > 0 {
            budget -= 1;
            if self.cut.is_none() || self.finished {
                break;
            }
            let should = self.needs_poll || self.last_item || self.woken_latest();
            if !should {
                break;
            }
            self.poll(false);
        }
    }

    fn owed(&self) -> Vec<usize> {
        with(|w| {
            let mut v = vec![];
            for c in 0..w.last_ans.len() {
                if !w.alive[c] || w.last_ans[c] != Ans::Pending || w.fired_latest[c] {
                    continue;
                }
                // a never-completing child is not woken by the epilogue (only by explicit `fire` commands),
                // whether or not it still has scripted steps left: same rule as Owed in the L2 specs
                if w.scripts[c].tail == "never" {
                    continue;
                }
                v.push(c);
            }
            v
        })
    }

    pub fn settle(&mut self, all_at_once: bool) {
        let mut budget = 100_000;
        loop {
            self.run();
            if self.cut.is_none() || self.finished {
                break;
            }
            let owed = self.owed();
            if owed.is_empty() || budget == 0 {
                break;
            }
            budget -= 1;
            if all_at_once {
                for c in owed {
                    world::fire(c, -1, false);
                }
            } else {
                world::fire(owed[0], -1, false);
            }
        }
        with(|w| w.ev(format_args!("{{\"e\":\"quiesce\"}}")));
    }

    fn view(&mut self) {
        if let Some(cut) = self.cut.as_mut() {
            let keys = self.keys.clone();
            let r = catch_unwind(AssertUnwindSafe(|| cut.view(&keys)));
            if let Ok(Some(v)) = r {
                let has: Vec<String> = v.has.iter().map(|x| x.to_string()).collect();
                with(|w| {
                    w.ev(format_args!(
                        "{{\"e\":\"view\",\"len\":{},\"empty\":{},\"cap\":{},\"has\":[{}]}}",
                        v.len,
                        v.empty,
                        v.cap,
                        has.join(",")
                    ))
                });
            }
        }
    }

    pub fn group_op(&mut self, name: &str, args: &[Value], nscripts: usize) {
        if self.cut.is_none() {
            return;
        }
        let cut = self.cut.as_mut().unwrap();
        match name {
            "insert" => {
                if self.next_child >= nscripts {
                    return;
                }
                let c = self.next_child;
                self.next_child += 1;
                with(|w| w.ensure_child(c));
                let r = catch_unwind(AssertUnwindSafe(|| cut.op(Op::Insert(c))));
                match r {
                    Ok(OpRes::Key(k)) => {
                        if !self.keys.contains(&k) {
                            self.keys.push(k);
                        }
                        with(|w| w.ev(format_args!("{{\"e\":\"insert\",\"c\":{},\"key\":{}}}", c, k)));
                        self.needs_poll = true;
                    }
                    Ok(_) => {}
                    Err(_) => {
                        with(|w| w.ev(format_args!("{{\"e\":\"panic\",\"at\":\"insert\"}}")));
                        self.finished = true;
                        self.drop_cut();
                        return;
                    }
                }
            }
            "extend" | "fromiter" => {
                let from_iter = name == "fromiter";
                // `fromiter` replaces the group the run starts with: only while nothing has happened to it
                if from_iter && (self.next_child != 0 || self.cur.is_some() || self.touched) {
                    return;
                }
                let cnt = args.first().and_then(|v| v.as_u64()).unwrap_or(1) as usize;
                let kind = args.get(1).and_then(|v| v.as_u64()).unwrap_or(0) as u8;
                let mut cs = vec![];
                for _ in 0..cnt {
                    if self.next_child < nscripts {
                        cs.push(self.next_child);
                        self.next_child += 1;
                    }
                }
                if cs.is_empty() {
                    return;
                }
                with(|w| w.ensure_child(*cs.last().unwrap()));
                let cs2 = cs.clone();
                let r = catch_unwind(AssertUnwindSafe(|| cut.op(if from_iter { Op::FromIter(cs2, kind) } else { Op::Extend(cs2, kind) })));
                match r {
                    Ok(OpRes::Keys(ks)) => {
                        with(|w| {
                            // the upper bound of the iterator's size hint: what the reservation is sized from
                            let hint = match kind {
                                1 => 0,
                                2 => cs.len() + 2,
                                _ => cs.len(),
                            };
                            w.ev(format_args!(
                                "{{\"e\":\"{}\",\"n\":{},\"hint\":{}}}",
                                if from_iter { "fromiter" } else { "extend" },
                                cs.len(),
                                hint
                            ));
                            for (c, k) in cs.iter().zip(ks.iter()) {
                                w.ev(format_args!("{{\"e\":\"insert\",\"c\":{},\"key\":{}}}", c, k));
                            }
                        });
                        self.needs_poll = true;
                    }
                    Ok(_) => {
                        // unsupported (StreamGroup): roll back the child ids
                        self.next_child -= cs.len();
                        return;
                    }
                    Err(_) => {
                        with(|w| w.ev(format_args!("{{\"e\":\"panic\",\"at\":\"extend\"}}")));
                        self.finished = true;
                        self.drop_cut();
                        return;
                    }
                }
            }
            "remove" | "removekey" => {
                if self.keys.is_empty() {
                    return;
                }
                let key = if name == "removekey" {
                    // remove by key value (vectors derived from L2 behaviours name the key itself)
                    let k = args.first().and_then(|v| v.as_i64()).unwrap_or(-1);
                    if !self.keys.contains(&k) {
                        return;
                    }
                    k
                } else {
                    let idx = args.first().and_then(|v| v.as_u64()).unwrap_or(0) as usize % self.keys.len();
                    self.keys[idx]
                };
                let r = catch_unwind(AssertUnwindSafe(|| cut.op(Op::Remove(key))));
                match r {
                    Ok(OpRes::Bool(b)) => {
                        with(|w| w.ev(format_args!("{{\"e\":\"remove\",\"key\":{},\"res\":{}}}", key, b)));
                    }
                    Ok(_) => {}
                    Err(_) => {
                        with(|w| w.ev(format_args!("{{\"e\":\"panic\",\"at\":\"remove\"}}")));
                        self.finished = true;
                        self.drop_cut();
                        return;
                    }
                }
            }
            "reserve" => {
                let n = args.first().and_then(|v| v.as_u64()).unwrap_or(1) as usize;
                let r = catch_unwind(AssertUnwindSafe(|| cut.op(Op::Reserve(n))));
                match r {
                    Ok(OpRes::Unit) => {
                        with(|w| w.ev(format_args!("{{\"e\":\"reserve\",\"n\":{}}}", n)));
                    }
                    Ok(_) => {}
                    Err(_) => {
                        with(|w| w.ev(format_args!("{{\"e\":\"panic\",\"at\":\"reserve\"}}")));
                        self.finished = true;
                        self.drop_cut();
                        return;
                    }
                }
            }
            _ => return,
        }
        // the caller holds `&mut` to the group: it is the consumer task itself and polls again
        self.needs_poll = true;
        self.touched = true;
        self.view();
    }
}

/// Run one vector; returns the recorded trace (ndjson text).
pub fn run_vector(v: &Vector) -> String {
    let stream_kind = cuts::is_stream_family(&v.fam) || v.fam == "co";
    let scripts: Vec<Script> = v.scripts.iter().map(|s| s.to_world()).collect();
    let nscripts = scripts.len();
    let never: Vec<String> = scripts
        .iter()
        .enumerate()
        .filter(|(_, s)| s.tail == "never")
        .map(|(i, _)| i.to_string())
        .collect();
    {
        let mut g = world::WORLD.lock().unwrap_or_else(|e| e.into_inner());
        *g = Some(World::new(scripts, stream_kind));
    }
    let is_group = v.fam == "future_group" || v.fam == "stream_group";
    let sub = cuts::is_subwaker_family(&v.fam) && feat() == "std";
    let (take, limit) = if v.fam == "co" { crate::co::effective(&v.stack) } else { (-1, v.limit) };
    with(|w| {
        w.ev(format_args!(
            "{{\"e\":\"new\",\"id\":{},\"fam\":\"{}\",\"cont\":\"{}\",\"n\":{},\"feat\":\"{}\",\"stream\":{},\"sub\":{},\"never\":[{}],\"x\":{},\"limit\":{},\"take\":{},\"nmaps\":{},\"term\":\"{}\",\"stack\":{}}}",
            serde_json::to_string(&v.id).unwrap(),
            v.fam,
            v.cont,
            v.n,
            feat(),
            stream_kind,
            sub,
            never.join(","),
            v.x,
            limit,
            take,
            v.stack.iter().filter(|a| a.as_str() == Some("map")).count(),
            v.term,
            serde_json::to_string(&serde_json::to_string(&v.stack).unwrap()).unwrap(),
        ))
    });
    let built = catch_unwind(AssertUnwindSafe(|| {
        if v.fam == "co" {
            crate::co::build(v)
        } else {
            cuts::build(&v.fam, &v.cont, v.n)
        }
    }));
    let cut = match built {
        Ok(Ok(c)) => c,
        Ok(Err(e)) => {
            with(|w| w.ev(format_args!("{{\"e\":\"skip\",\"why\":{}}}", serde_json::to_string(&e).unwrap())));
            return finish();
        }
        Err(_) => {
            with(|w| {
                w.ev(format_args!("{{\"e\":\"panic\",\"at\":\"new\"}}"));
                w.ev(format_args!("{{\"e\":\"end\"}}"));
            });
            return finish();
        }
    };
    let mut ex = Exec {
        cut: Some(cut),
        finished: false,
        last_item: false,
        needs_poll: true,
        is_group,
        cur: None,
        keys: vec![],
        next_child: if is_group { 0 } else { nscripts },
        npolls: 0,
        touched: false,
    };
    with(|w| w.ev(format_args!("{{\"e\":\"built\"}}")));
    for cmd in &v.cmds {
        let arr = match cmd.as_array() {
            Some(a) if !a.is_empty() => a,
            _ => continue,
        };
        let name = arr[0].as_str().unwrap_or("");
        match name {
            "poll" => ex.poll(false),
            "pollr" => ex.poll(true),
            "fire" => {
                let c = arr.get(1).and_then(|x| x.as_i64()).unwrap_or(0);
                let k = arr.get(2).and_then(|x| x.as_i64()).unwrap_or(-1);
                if c >= 0 {
                    world::fire(c as usize, k, false);
                }
            }
            "run" => ex.run(),
            "repoll" => ex.repoll(),
            "threads" => {
                let t = arr.get(1).and_then(|x| x.as_u64()).unwrap_or(2) as usize;
                let f = arr.get(2).and_then(|x| x.as_u64()).unwrap_or(20) as usize;
                let sd = arr.get(3).and_then(|x| x.as_u64()).unwrap_or(1);
                crate::threads::run(&mut ex, t.clamp(1, 8), f.min(500), sd);
            }
            "settle" => ex.settle(false),
            "settle_all" => ex.settle(true),
            "drop" => ex.drop_cut(),
            "insert" | "remove" | "removekey" | "reserve" | "extend" | "fromiter" => ex.group_op(name, &arr[1..], nscripts),
            _ => {}
        }
    }
    ex.drop_cut();
    with(|w| w.ev(format_args!("{{\"e\":\"end\"}}")));
    finish()
}

fn finish() -> String {
    let mut g = world::WORLD.lock().unwrap_or_else(|e| e.into_inner());
    let w = g.take().unwrap();
    // wakers and parents are dropped here, after the trace is complete
    w.buf
}
