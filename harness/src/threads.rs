//! Thread-mode support: a condvar the parked executor waits on.
use std::sync::{Condvar, Mutex};

pub static PARK: (Mutex<u64>, Condvar) = (Mutex::new(0), Condvar::new());

pub fn notify() {
    let (m, cv) = &PARK;
    let mut g = m.lock().unwrap_or_else(|e| e.into_inner());
    *g += 1;
    cv.notify_all();
}
