//! Thread mode: other threads invoke handed wakers at random instants while the owner thread runs the
//! wake-only executor (parked on a condvar that the caller's wakers signal).
//!
//! Fires issued by the other threads are logged as `tfire` events *at their start*, under the world lock
//! (so their order relative to `cpoll` events is exact: the waker fired is the one the world holds at that
//! instant).  No instantaneous obligation is evaluated on them (the wake itself happens some time after the
//! log entry); lost wake-ups show up as a hang at the quiescence check of the single-threaded epilogue, or
//! as a watchdog expiry.
use std::sync::atomic::{AtomicBool, AtomicU64, Ordering};
use std::sync::{Condvar, Mutex};
use std::time::{Duration, Instant};

use crate::exec::Exec;
use crate::gen::Rng;
use crate::world::with;

pub static PARK: (Mutex<u64>, Condvar) = (Mutex::new(0), Condvar::new());
/// Time (ms since start) at which the owner thread entered the current poll, 0 = not polling.
pub static IN_POLL_SINCE: AtomicU64 = AtomicU64::new(0);

pub fn notify() {
    let (m, cv) = &PARK;
    let mut g = m.lock().unwrap_or_else(|e| e.into_inner());
    *g += 1;
    cv.notify_all();
}

fn park(ms: u64) {
    let (m, cv) = &PARK;
    let g = m.lock().unwrap_or_else(|e| e.into_inner());
    let _ = cv.wait_timeout(g, Duration::from_millis(ms));
}

/// One concurrent fire: pick a handed waker, log `tfire`, invoke it.
fn fire_one(rng: &mut Rng) {
    let got = with(|w| {
        let cands: Vec<usize> = (0..w.handed.len()).filter(|&c| !w.handed[c].is_empty()).collect();
        if cands.is_empty() {
            return None;
        }
        let c = cands[rng.below(cands.len() as u64) as usize];
        let len = w.handed[c].len();
        // mostly the latest waker, sometimes a stale one
        let k = if rng.chance(80) { len - 1 } else { rng.below(len as u64) as usize };
        let wk = w.handed[c][k].clone();
        let (wid, _) = w.wid_of(&wk);
        if k == len - 1 {
            w.fired_latest[c] = true;
        }
        w.ev(format_args!("{{\"e\":\"tfire\",\"c\":{},\"k\":{},\"wid\":{}}}", c, k, wid));
        Some((wk, c, k, wid))
    });
    if let Some((wk, c, k, wid)) = got {
        let r = std::panic::catch_unwind(std::panic::AssertUnwindSafe(|| wk.wake_by_ref()));
        with(|w| {
            if r.is_err() {
                w.ev(format_args!("{{\"e\":\"panic\",\"at\":\"wake\"}}"));
            }
            // the invocation has returned: it took effect somewhere between `tfire` and `tfired`
            w.ev(format_args!("{{\"e\":\"tfired\",\"c\":{},\"k\":{},\"wid\":{}}}", c, k, wid));
        });
    }
}

/// Run `nthreads` firing threads (each `fires` fires) concurrently with the wake-only executor.
pub fn run(ex: &mut Exec, nthreads: usize, fires: usize, seed: u64) {
    with(|w| w.ev(format_args!("{{\"e\":\"tstart\",\"threads\":{},\"fires\":{}}}", nthreads, fires)));
    crate::world::DAWDLE.store(true, Ordering::SeqCst);
    let mut spurious_left = 1 + (seed % 4) as u32;
    let done = AtomicBool::new(false);
    let live = AtomicU64::new(nthreads as u64);
    let t0 = Instant::now();
    std::thread::scope(|s| {
        for t in 0..nthreads {
            let live = &live;
            s.spawn(move || {
                let mut rng = Rng::new(seed ^ ((t as u64 + 1) << 32));
                for _ in 0..fires {
                    // sometimes aim at the window in which the owner is inside a poll
                    if rng.chance(35) {
                        let mut spins = 0u32;
                        while IN_POLL_SINCE.load(Ordering::SeqCst) == 0 && spins < 20_000 {
                            std::hint::spin_loop();
                            spins += 1;
                        }
                        for _ in 0..rng.below(300) {
                            std::hint::spin_loop();
                        }
                    }
                    fire_one(&mut rng);
                    if rng.chance(15) {
                        fire_one(&mut rng); // bursts
                    }
                    match rng.below(4) {
                        0 => std::thread::yield_now(),
                        1 => std::thread::sleep(Duration::from_micros(rng.below(200))),
                        _ => {
                            for _ in 0..rng.below(2000) {
                                std::hint::spin_loop();
                            }
                        }
                    }
                }
                live.fetch_sub(1, Ordering::SeqCst);
                notify();
            });
        }
        // watchdog: a poll that does not return is a deadlock of the code under test
        let done_ref = &done;
        s.spawn(move || {
            while !done_ref.load(Ordering::SeqCst) {
                std::thread::sleep(Duration::from_millis(50));
                let since = IN_POLL_SINCE.load(Ordering::SeqCst);
                let now = t0.elapsed().as_millis() as u64 + 1;
                if since != 0 && now > since + 10_000 {
                    eprintln!("WATCHDOG: a poll has not returned for 10 s (deadlock)");
                    std::process::abort();
                }
            }
        });
        // the owner thread: wake-only executor
        let mut idle_rounds = 0u32;
        loop {
            if ex.cut.is_none() || ex.finished {
                break;
            }
            if ex.should_poll() {
                IN_POLL_SINCE.store(t0.elapsed().as_millis() as u64 + 1, Ordering::SeqCst);
                ex.poll(false);
                IN_POLL_SINCE.store(0, Ordering::SeqCst);
                idle_rounds = 0;
                continue;
            }
            // a few spurious polls while the other threads are firing
            if spurious_left > 0 && live.load(Ordering::SeqCst) != 0 && idle_rounds % 3 == 2 {
                spurious_left -= 1;
                IN_POLL_SINCE.store(t0.elapsed().as_millis() as u64 + 1, Ordering::SeqCst);
                ex.poll(false);
                IN_POLL_SINCE.store(0, Ordering::SeqCst);
                continue;
            }
            if live.load(Ordering::SeqCst) == 0 {
                idle_rounds += 1;
                if idle_rounds > 2 {
                    break;
                }
            } else {
                idle_rounds += 1;
            }
            park(2);
        }
        // let the firing threads finish even if the combinator is done
        while live.load(Ordering::SeqCst) != 0 {
            park(2);
        }
        done.store(true, Ordering::SeqCst);
    });
    crate::world::DAWDLE.store(false, Ordering::SeqCst);
    with(|w| w.ev(format_args!("{{\"e\":\"tjoin\"}}")));
}
