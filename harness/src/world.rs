//! Global world shared by the scripted children, the wakers and the executor.
//!
//! The world is a single `Mutex`; the guard is never held across a call into
//! the library under test or across a waker invocation.

use std::collections::HashMap;
use std::fmt::Write as _;
use std::sync::atomic::{AtomicU64, Ordering};
use std::sync::{Arc, Mutex};
use std::task::Waker;

use serde::Deserialize;

#[derive(Clone, Debug, Deserialize)]
pub struct Step {
    /// "p" pending, "r" ready (futures), "s" some, "n" none, "x" panic
    pub r: String,
    #[serde(default = "dtrue")]
    pub ok: bool,
    /// in-poll fires: (child, k) with k = -1 meaning "latest handed waker";
    /// child = -2 means "this child" (self wake with the fresh waker)
    #[serde(default)]
    pub fires: Vec<(i64, i64)>,
}
fn dtrue() -> bool {
    true
}

#[derive(Clone, Debug, Deserialize)]
pub struct Script {
    #[serde(default)]
    pub steps: Vec<Step>,
    /// "done" (ready / none after the scripted steps) or "never"
    #[serde(default = "ddone")]
    pub tail: String,
    #[serde(default = "dtrue")]
    pub tail_ok: bool,
    /// what a scripted stream reports as `size_hint` (all of them valid hints): 0 the default `(0, None)`,
    /// 1 exact, 2 upper bound too large by three, 3 upper bound `usize::MAX`
    #[serde(default)]
    pub hint: u8,
}
fn ddone() -> String {
    "done".into()
}

#[derive(Clone, Copy, PartialEq, Eq, Debug)]
pub enum Ans {
    Never,
    Pending,
    Some,
    Done,
}

#[derive(Clone, Copy, PartialEq, Eq, Debug)]
pub enum VState {
    Live,
    Released,
    Gone,
}

pub struct World {
    pub buf: String,
    pub scripts: Vec<Script>,
    pub cursor: Vec<usize>,
    pub polls: Vec<usize>,
    pub handed: Vec<Vec<Waker>>,
    pub last_ans: Vec<Ans>,
    pub fired_latest: Vec<bool>,
    pub alive: Vec<bool>,
    pub cdrops: Vec<u32>,
    pub parents: Vec<Waker>,
    pub parent_ptr: HashMap<usize, i64>,
    pub wids: HashMap<usize, i64>,
    pub woken: Vec<bool>,
    pub vals: HashMap<u64, VState>,
    pub stream_kind: bool,
    pub nevents: u64,
    pub next_work: usize,
    /// answers given by children that were polled after completion (script.rs)
    pub ghosts: usize,
    /// size hint of the source of a concurrent stream, taken at construction (co.rs)
    pub co_src: (usize, Option<usize>),
}

pub static WORLD: Mutex<Option<World>> = Mutex::new(None);
pub static SEQ: AtomicU64 = AtomicU64::new(0);

pub const MAGIC: u64 = 0x5ca1ab1e_0ddba11;

pub fn with<R>(f: impl FnOnce(&mut World) -> R) -> R {
    let mut g = WORLD.lock().unwrap_or_else(|e| e.into_inner());
    f(g.as_mut().expect("world not initialised"))
}

impl World {
    pub fn new(scripts: Vec<Script>, stream_kind: bool) -> World {
        let n = scripts.len();
        World {
            buf: String::with_capacity(1 << 14),
            scripts,
            cursor: vec![0; n],
            polls: vec![0; n],
            handed: (0..n).map(|_| Vec::new()).collect(),
            last_ans: vec![Ans::Never; n],
            fired_latest: vec![false; n],
            alive: vec![true; n],
            cdrops: vec![0; n],
            parents: Vec::new(),
            parent_ptr: HashMap::new(),
            wids: HashMap::new(),
            woken: Vec::new(),
            vals: HashMap::new(),
            stream_kind,
            nevents: 0,
            next_work: 1,
            ghosts: 0,
            co_src: (0, None),
        }
    }

    pub fn ev(&mut self, s: std::fmt::Arguments<'_>) {
        self.nevents += 1;
        let _ = self.buf.write_fmt(s);
        self.buf.push('\n');
    }

    pub fn wid_of(&mut self, w: &Waker) -> (i64, i64) {
        let p = w.data() as usize;
        let next = self.wids.len() as i64;
        let wid = *self.wids.entry(p).or_insert(next);
        let pw = self.parent_ptr.get(&p).copied().unwrap_or(-1);
        (wid, pw)
    }

    pub fn ensure_child(&mut self, c: usize) {
        while self.cursor.len() <= c {
            self.cursor.push(0);
            self.polls.push(0);
            self.handed.push(Vec::new());
            self.last_ans.push(Ans::Never);
            self.fired_latest.push(false);
            self.alive.push(true);
            self.cdrops.push(0);
        }
    }
}

/// The caller's waker of one generation: a hand-rolled `RawWaker` (data = `Arc<ParentWake>`), so that
/// the caller-provided code a combinator runs - `clone`, `wake`, `wake_by_ref`, `drop` of the waker - can
/// take its time in thread mode: a slow (but perfectly legal) executor widens the windows in which a
/// combinator has released its readiness lock around such a call.
pub struct ParentWake {
    pub g: i64,
}

/// Thread mode is active: caller-provided waker code dawdles.
pub static DAWDLE: std::sync::atomic::AtomicBool = std::sync::atomic::AtomicBool::new(false);
static DAWDLE_SEED: AtomicU64 = AtomicU64::new(0x9E3779B97F4A7C15);

fn dawdle() {
    if !DAWDLE.load(Ordering::Relaxed) {
        return;
    }
    let x = DAWDLE_SEED.fetch_add(0x9E3779B97F4A7C15, Ordering::Relaxed);
    let z = (x ^ (x >> 29)).wrapping_mul(0xBF58476D1CE4E5B9) >> 40;
    match z % 8 {
        0 | 1 | 2 => {}
        3 => std::thread::yield_now(),
        4 => std::thread::sleep(std::time::Duration::from_micros(z % 150)),
        _ => {
            for _ in 0..(z % 4000) {
                std::hint::spin_loop();
            }
        }
    }
}

impl ParentWake {
    fn do_wake(&self) {
        dawdle();
        let g = self.g;
        with(|w| {
            if (g as usize) < w.woken.len() {
                w.woken[g as usize] = true;
            }
            w.ev(format_args!("{{\"e\":\"pwake\",\"g\":{}}}", g));
        });
        crate::threads::notify();
    }
}

unsafe fn pw_clone(p: *const ()) -> std::task::RawWaker {
    dawdle();
    Arc::increment_strong_count(p as *const ParentWake);
    std::task::RawWaker::new(p, &PW_VTABLE)
}
unsafe fn pw_wake(p: *const ()) {
    let a = Arc::from_raw(p as *const ParentWake);
    a.do_wake();
}
unsafe fn pw_wake_by_ref(p: *const ()) {
    (*(p as *const ParentWake)).do_wake();
}
unsafe fn pw_drop(p: *const ()) {
    drop(Arc::from_raw(p as *const ParentWake));
}
static PW_VTABLE: std::task::RawWakerVTable = std::task::RawWakerVTable::new(pw_clone, pw_wake, pw_wake_by_ref, pw_drop);

fn parent_waker(g: i64) -> Waker {
    let p = Arc::into_raw(Arc::new(ParentWake { g })) as *const ();
    unsafe { Waker::from_raw(std::task::RawWaker::new(p, &PW_VTABLE)) }
}

/// Create the parent waker of a new generation and register it.
pub fn new_parent() -> (i64, Waker) {
    with(|w| {
        let g = w.parents.len() as i64;
        let wk: Waker = parent_waker(g);
        w.parent_ptr.insert(wk.data() as usize, g);
        w.parents.push(wk.clone());
        w.woken.push(false);
        (g, wk)
    })
}

/// Invoke the k-th waker handed to child c (k = -1: the latest). Returns false if
/// no such waker exists (the command is then skipped silently).
pub fn fire(c: usize, k: i64, inpoll: bool) -> bool {
    let got = with(|w| {
        if c >= w.handed.len() || w.handed[c].is_empty() {
            return None;
        }
        let len = w.handed[c].len() as i64;
        let kk = if k < 0 { len - 1 } else { k };
        if kk >= len {
            return None;
        }
        let wk = w.handed[c][kk as usize].clone();
        let (wid, _) = w.wid_of(&wk);
        if kk == len - 1 {
            w.fired_latest[c] = true;
        }
        w.ev(format_args!(
            "{{\"e\":\"fire\",\"c\":{},\"k\":{},\"wid\":{},\"inp\":{}}}",
            c, kk, wid, inpoll
        ));
        Some((wk, kk))
    });
    match got {
        None => false,
        Some((wk, kk)) => {
            let r = std::panic::catch_unwind(std::panic::AssertUnwindSafe(|| wk.wake_by_ref()));
            with(|w| {
                if r.is_err() {
                    w.ev(format_args!("{{\"e\":\"panic\",\"at\":\"wake\"}}"));
                }
                w.ev(format_args!("{{\"e\":\"fired\",\"c\":{},\"k\":{}}}", c, kk));
            });
            true
        }
    }
}
