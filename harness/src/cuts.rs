//! Construction of the combinators under test ("cuts") behind one object-safe trait.

use std::future::Future;
use std::pin::Pin;
use std::task::{Context, Poll};

use futures_concurrency::prelude::*;
use futures_core::Stream;

use crate::script::{Child, SFut, SStream, TFut, UFut, Val};

#[derive(Debug, Clone)]
pub struct RetEv {
    pub r: &'static str,
    pub ok: bool,
    pub v: i64,
    pub out: Vec<i64>,
    pub key: i64,
}

impl RetEv {
    pub fn pending() -> RetEv {
        RetEv { r: "pending", ok: true, v: -1, out: vec![], key: -1 }
    }
    pub fn none() -> RetEv {
        RetEv { r: "none", ok: true, v: -1, out: vec![], key: -1 }
    }
    pub fn ready_v(ok: bool, v: i64) -> RetEv {
        RetEv { r: "ready", ok, v, out: vec![], key: -1 }
    }
    pub fn ready_out(ok: bool, out: Vec<i64>) -> RetEv {
        RetEv { r: "ready", ok, v: -1, out, key: -1 }
    }
    pub fn some_v(v: i64, key: i64) -> RetEv {
        RetEv { r: "some", ok: true, v, out: vec![], key }
    }
    pub fn some_out(out: Vec<i64>) -> RetEv {
        RetEv { r: "some", ok: true, v: -1, out, key: -1 }
    }
    pub fn is_final(&self) -> bool {
        self.r == "ready" || self.r == "none"
    }
}

pub enum Op {
    Insert(usize),
    Remove(i64),
    Reserve(usize),
    /// children, iterator kind (0: exact size hint, 1: no upper bound, 2: upper bound too large by two)
    Extend(Vec<usize>, u8),
    /// rebuild the (still pristine) group through its `FromIterator` impl
    FromIter(Vec<usize>, u8),
}

pub struct View {
    pub len: usize,
    pub empty: bool,
    pub cap: usize,
    pub has: Vec<i64>,
}

pub enum OpRes {
    Key(i64),
    Keys(Vec<i64>),
    Bool(bool),
    Unit,
    Unsupported,
}

pub trait Cut {
    fn poll(&mut self, cx: &mut Context<'_>) -> RetEv;
    fn is_stream(&self) -> bool;
    fn op(&mut self, _op: Op) -> OpRes {
        OpRes::Unsupported
    }
    fn view(&mut self, _keys: &[i64]) -> Option<View> {
        None
    }
}

pub struct FutCut<F: Future> {
    f: Pin<Box<F>>,
    conv: Box<dyn Fn(F::Output) -> RetEv>,
}

impl<F: Future> Cut for FutCut<F> {
    fn poll(&mut self, cx: &mut Context<'_>) -> RetEv {
        match self.f.as_mut().poll(cx) {
            Poll::Pending => RetEv::pending(),
            Poll::Ready(o) => (self.conv)(o),
        }
    }
    fn is_stream(&self) -> bool {
        false
    }
}

pub fn fut_cut<F: Future + 'static>(f: F, conv: impl Fn(F::Output) -> RetEv + 'static) -> Box<dyn Cut> {
    Box::new(FutCut { f: Box::pin(f), conv: Box::new(conv) })
}

pub struct StreamCut<S: Stream> {
    s: Pin<Box<S>>,
    conv: Box<dyn Fn(S::Item) -> RetEv>,
}

impl<S: Stream> Cut for StreamCut<S> {
    fn poll(&mut self, cx: &mut Context<'_>) -> RetEv {
        match self.s.as_mut().poll_next(cx) {
            Poll::Pending => RetEv::pending(),
            Poll::Ready(None) => RetEv::none(),
            Poll::Ready(Some(i)) => (self.conv)(i),
        }
    }
    fn is_stream(&self) -> bool {
        true
    }
}

pub fn stream_cut<S: Stream + 'static>(s: S, conv: impl Fn(S::Item) -> RetEv + 'static) -> Box<dyn Cut> {
    Box::new(StreamCut { s: Box::pin(s), conv: Box::new(conv) })
}

fn rel_res_out<I: IntoIterator<Item = Val>>(o: Result<I, Val>) -> RetEv {
    match o {
        Ok(vs) => RetEv::ready_out(true, vs.into_iter().map(|x| x.release()).collect()),
        Err(e) => RetEv::ready_v(false, e.release()),
    }
}

macro_rules! arity_dispatch {
    ($n:expr, $mac:ident, $it:ident) => {
        match $n {
            1 => $mac!($it; a),
            2 => $mac!($it; a b),
            3 => $mac!($it; a b c),
            4 => $mac!($it; a b c d),
            5 => $mac!($it; a b c d e),
            6 => $mac!($it; a b c d e f),
            7 => $mac!($it; a b c d e f g),
            8 => $mac!($it; a b c d e f g h),
            9 => $mac!($it; a b c d e f g h i),
            10 => $mac!($it; a b c d e f g h i j),
            11 => $mac!($it; a b c d e f g h i j k),
            12 => $mac!($it; a b c d e f g h i j k l),
            _ => return Err(format!("unsupported tuple arity {}", $n)),
        }
    };
}

macro_rules! arr_dispatch {
    ($n:expr, $mac:ident, $v:ident) => {
        match $n {
            0 => $mac!($v; 0),
            1 => $mac!($v; 1),
            2 => $mac!($v; 2),
            3 => $mac!($v; 3),
            4 => $mac!($v; 4),
            5 => $mac!($v; 5),
            6 => $mac!($v; 6),
            8 => $mac!($v; 8),
            12 => $mac!($v; 12),
            23 => $mac!($v; 23),
            65 => $mac!($v; 65),
            _ => return Err(format!("unsupported array length {}", $n)),
        }
    };
}

pub const ARR_SIZES: &[usize] = &[0, 1, 2, 3, 4, 5, 6, 8, 12, 23, 65];

macro_rules! tup_of {
    ($it:ident; $($x:ident)*) => { ( $( { let $x = $it.next().unwrap(); $x }, )* ) };
}

macro_rules! arr_of {
    ($v:ident; $N:literal; $T:ty) => {{
        let a: [$T; $N] = match $v.try_into() { Ok(a) => a, Err(_) => unreachable!() };
        a
    }};
}

// ---- join ----
macro_rules! mk_join_tup { ($it:ident; $($x:ident)*) => {{
    let t = tup_of!($it; $($x)*);
    fut_cut(t.join(), |o| { let ($($x,)*) = o; RetEv::ready_out(true, vec![$($x.release()),*]) })
}}}
macro_rules! mk_join_arr { ($v:ident; $N:literal) => {{
    let a = arr_of!($v; $N; SFut);
    fut_cut(a.join(), |o| RetEv::ready_out(true, o.iter().map(|x| x.release()).collect()))
}}}
// ---- try_join ----
macro_rules! mk_try_join_tup { ($it:ident; $($x:ident)*) => {{
    let t = tup_of!($it; $($x)*);
    fut_cut(t.try_join(), |o| match o {
        Ok(($($x,)*)) => RetEv::ready_out(true, vec![$($x.release()),*]),
        Err(e) => RetEv::ready_v(false, e.release()),
    })
}}}
macro_rules! mk_try_join_arr { ($v:ident; $N:literal) => {{
    let a = arr_of!($v; $N; TFut);
    fut_cut(a.try_join(), |o| rel_res_out(o))
}}}
// ---- race ----
macro_rules! mk_race_tup { ($it:ident; $($x:ident)*) => {{
    let t = tup_of!($it; $($x)*);
    fut_cut(t.race(), |o: Val| RetEv::ready_v(true, o.release()))
}}}
macro_rules! mk_race_arr { ($v:ident; $N:literal) => {{
    let a = arr_of!($v; $N; SFut);
    fut_cut(a.race(), |o: Val| RetEv::ready_v(true, o.release()))
}}}
// ---- race_ok ----
macro_rules! mk_race_ok_tup { ($it:ident; $($x:ident)*) => {{
    let t = tup_of!($it; $($x)*);
    fut_cut(t.race_ok(), |o| match o {
        Ok(v) => RetEv::ready_v(true, v.release()),
        Err(agg) => RetEv::ready_out(false, agg.iter().map(|x| x.release()).collect()),
    })
}}}
macro_rules! mk_race_ok_arr { ($v:ident; $N:literal) => {{
    let a = arr_of!($v; $N; TFut);
    fut_cut(a.race_ok(), |o| match o {
        Ok(v) => RetEv::ready_v(true, v.release()),
        Err(agg) => RetEv::ready_out(false, agg.iter().map(|x| x.release()).collect()),
    })
}}}
// ---- merge ----
macro_rules! mk_merge_tup { ($it:ident; $($x:ident)*) => {{
    let t = tup_of!($it; $($x)*);
    stream_cut(t.merge(), |i: Val| RetEv::some_v(i.release(), -1))
}}}
macro_rules! mk_merge_arr { ($v:ident; $N:literal) => {{
    let a = arr_of!($v; $N; SStream);
    stream_cut(a.merge(), |i: Val| RetEv::some_v(i.release(), -1))
}}}
// ---- zip ----
macro_rules! mk_zip_tup { ($it:ident; $($x:ident)*) => {{
    let t = tup_of!($it; $($x)*);
    stream_cut(t.zip(), |o| { let ($($x,)*) = o; RetEv::some_out(vec![$($x.release()),*]) })
}}}
macro_rules! mk_zip_arr { ($v:ident; $N:literal) => {{
    let a = arr_of!($v; $N; SStream);
    stream_cut(a.zip(), |o| RetEv::some_out(o.iter().map(|x| x.release()).collect()))
}}}
// ---- chain ----
macro_rules! mk_chain_tup { ($it:ident; $($x:ident)*) => {{
    let t = tup_of!($it; $($x)*);
    stream_cut(t.chain(), |i: Val| RetEv::some_v(i.release(), -1))
}}}
macro_rules! mk_chain_arr { ($v:ident; $N:literal) => {{
    let a = arr_of!($v; $N; SStream);
    stream_cut(a.chain(), |i: Val| RetEv::some_v(i.release(), -1))
}}}

fn sfuts(n: usize) -> Vec<SFut> {
    (0..n).map(|c| SFut(Child::new(c))).collect()
}
fn tfuts(n: usize) -> Vec<TFut> {
    (0..n).map(|c| TFut(Child::new(c))).collect()
}
fn sstreams(n: usize) -> Vec<SStream> {
    (0..n).map(|c| SStream(Child::new(c))).collect()
}

pub fn is_stream_family(fam: &str) -> bool {
    matches!(
        fam,
        "merge" | "zip" | "chain" | "future_group" | "stream_group" | "wait_until_stream" | "nest_merge_groups" | "nest_chain_merge" | "nest_merge_merge"
    )
}

/// Families whose children receive per-child sub-wakers in the std build.
pub fn is_subwaker_family(fam: &str) -> bool {
    matches!(fam, "join" | "try_join" | "merge" | "zip" | "future_group" | "stream_group")
}

pub fn build(fam: &str, cont: &str, n: usize) -> Result<Box<dyn Cut>, String> {
    let cut: Box<dyn Cut> = match (fam, cont) {
        ("join", "tup") => {
            if n == 0 {
                fut_cut(().join(), |_| RetEv::ready_out(true, vec![]))
            } else {
                let mut it = sfuts(n).into_iter();
                arity_dispatch!(n, mk_join_tup, it)
            }
        }
        ("join", "arr") => {
            let v = sfuts(n);
            arr_dispatch!(n, mk_join_arr, v)
        }
        #[cfg(feature = "alloc")]
        ("join", "vec") => fut_cut(sfuts(n).join(), |o| {
            RetEv::ready_out(true, o.iter().map(|x| x.release()).collect())
        }),
        ("join", "ext") if n == 2 => {
            let mut it = sfuts(2).into_iter();
            let (a, b) = (it.next().unwrap(), it.next().unwrap());
            fut_cut(futures_concurrency::future::FutureExt::join(a, b), |(a, b)| {
                RetEv::ready_out(true, vec![a.release(), b.release()])
            })
        }
        ("try_join", "tup") => {
            if n == 0 {
                fut_cut(().try_join(), |_| RetEv::ready_out(true, vec![]))
            } else {
                let mut it = tfuts(n).into_iter();
                arity_dispatch!(n, mk_try_join_tup, it)
            }
        }
        ("try_join", "arr") => {
            let v = tfuts(n);
            arr_dispatch!(n, mk_try_join_arr, v)
        }
        #[cfg(feature = "alloc")]
        ("try_join", "vec") => fut_cut(tfuts(n).try_join(), |o| rel_res_out(o)),
        ("race", "tup") => {
            let mut it = sfuts(n).into_iter();
            arity_dispatch!(n, mk_race_tup, it)
        }
        ("race", "arr") => {
            let v = sfuts(n);
            arr_dispatch!(n, mk_race_arr, v)
        }
        #[cfg(feature = "alloc")]
        ("race", "vec") => fut_cut(sfuts(n).race(), |o: Val| RetEv::ready_v(true, o.release())),
        ("race", "ext") if n == 2 => {
            let mut it = sfuts(2).into_iter();
            let (a, b) = (it.next().unwrap(), it.next().unwrap());
            fut_cut(futures_concurrency::future::FutureExt::race(a, b), |o: Val| {
                RetEv::ready_v(true, o.release())
            })
        }
        ("race_ok", "tup") => {
            let mut it = tfuts(n).into_iter();
            arity_dispatch!(n, mk_race_ok_tup, it)
        }
        ("race_ok", "arr") => {
            let v = tfuts(n);
            arr_dispatch!(n, mk_race_ok_arr, v)
        }
        #[cfg(feature = "alloc")]
        ("race_ok", "vec") => fut_cut(tfuts(n).race_ok(), |o| match o {
            Ok(v) => RetEv::ready_v(true, v.release()),
            Err(agg) => RetEv::ready_out(false, agg.iter().map(|x| x.release()).collect()),
        }),
        ("merge", "tup") => {
            if n == 0 {
                stream_cut(<() as futures_concurrency::stream::Merge>::merge(()), |_i: core::convert::Infallible| RetEv::none())
            } else {
                let mut it = sstreams(n).into_iter();
                arity_dispatch!(n, mk_merge_tup, it)
            }
        }
        ("merge", "arr") => {
            let v = sstreams(n);
            arr_dispatch!(n, mk_merge_arr, v)
        }
        #[cfg(feature = "alloc")]
        ("merge", "vec") => stream_cut(sstreams(n).merge(), |i: Val| RetEv::some_v(i.release(), -1)),
        ("merge", "ext") if n == 2 => {
            let mut it = sstreams(2).into_iter();
            let (a, b) = (it.next().unwrap(), it.next().unwrap());
            stream_cut(futures_concurrency::stream::StreamExt::merge(a, b), |i: Val| {
                RetEv::some_v(i.release(), -1)
            })
        }
        ("zip", "tup") => {
            let mut it = sstreams(n).into_iter();
            arity_dispatch!(n, mk_zip_tup, it)
        }
        ("zip", "arr") => {
            let v = sstreams(n);
            arr_dispatch!(n, mk_zip_arr, v)
        }
        #[cfg(feature = "alloc")]
        ("zip", "vec") => stream_cut(sstreams(n).zip(), |o| {
            RetEv::some_out(o.iter().map(|x| x.release()).collect())
        }),
        ("zip", "ext") if n == 2 => {
            let mut it = sstreams(2).into_iter();
            let (a, b) = (it.next().unwrap(), it.next().unwrap());
            stream_cut(futures_concurrency::stream::StreamExt::zip(a, b), |(a, b)| {
                RetEv::some_out(vec![a.release(), b.release()])
            })
        }
        ("chain", "tup") => {
            let mut it = sstreams(n).into_iter();
            arity_dispatch!(n, mk_chain_tup, it)
        }
        ("chain", "arr") => {
            let v = sstreams(n);
            arr_dispatch!(n, mk_chain_arr, v)
        }
        #[cfg(feature = "alloc")]
        ("chain", "vec") => stream_cut(sstreams(n).chain(), |i: Val| RetEv::some_v(i.release(), -1)),
        ("chain", "ext") if n == 2 => {
            let mut it = sstreams(2).into_iter();
            let (a, b) = (it.next().unwrap(), it.next().unwrap());
            stream_cut(futures_concurrency::stream::StreamExt::chain(a, b), |i: Val| {
                RetEv::some_v(i.release(), -1)
            })
        }
        // child 0 = deadline, child 1 = inner
        ("wait_until", _) => {
            let d = UFut(Child::new_unit(0));
            let inner = SFut(Child::new(1));
            fut_cut(futures_concurrency::future::FutureExt::wait_until(inner, d), |o: Val| {
                RetEv::ready_v(true, o.release())
            })
        }
        ("wait_until_stream", _) => {
            let d = UFut(Child::new_unit(0));
            let inner = SStream(Child::new(1));
            stream_cut(futures_concurrency::stream::StreamExt::wait_until(inner, d), |i: Val| {
                RetEv::some_v(i.release(), -1)
            })
        }
        #[cfg(feature = "alloc")]
        ("future_group", c) => crate::groups::future_group(c, n)?,
        #[cfg(feature = "alloc")]
        ("stream_group", c) => crate::groups::stream_group(c, n)?,
        #[cfg(feature = "alloc")]
        (f, c) if f.starts_with("nest_") => crate::nest::build(f, c, n)?,
        _ => return Err(format!("unsupported family/container {}/{}/{}", fam, cont, n)),
    };
    Ok(cut)
}
