//! FutureGroup / StreamGroup cuts (plain and keyed views).

use std::pin::Pin;
use std::task::{Context, Poll};

use futures_concurrency::future::future_group as fg;
use futures_concurrency::future::FutureGroup;
use futures_concurrency::stream::stream_group as sg;
use futures_concurrency::stream::StreamGroup;
use futures_core::Stream;

use crate::cuts::{Cut, Op, OpRes, RetEv, View};
use crate::script::{Child, SFut, SStream};

/// An iterator over `it`'s items whose `size_hint` is exact (kind 0), has no upper bound (kind 1: `from_fn`), or
/// over-estimates the upper bound by two (kind 2: chained with a filter that lets nothing through).  All three are
/// valid `Iterator`s; `extend` / `from_iter` size their reservation from the hint.
fn hinted<'a, T: 'a, I: Iterator<Item = T> + 'a>(it: I, kind: u8) -> Box<dyn Iterator<Item = T> + 'a> {
    match kind {
        1 => {
            let mut it = it;
            Box::new(std::iter::from_fn(move || it.next()))
        }
        2 => Box::new(it.chain((0..2).filter(|_| false).map(|_| -> T { unreachable!() }))),
        _ => Box::new(it),
    }
}

fn key_int<K: std::fmt::Debug>(k: &K) -> i64 {
    let s = format!("{:?}", k);
    let digits: String = s.chars().filter(|c| c.is_ascii_digit()).collect();
    digits.parse().unwrap_or(-1)
}

enum FG {
    Plain(Box<FutureGroup<SFut>>),
    Keyed(Box<fg::Keyed<SFut>>),
}

pub struct FutureGroupCut {
    g: FG,
    keys: Vec<fg::Key>,
}

impl FutureGroupCut {
    fn group(&mut self) -> &mut FutureGroup<SFut> {
        match &mut self.g {
            FG::Plain(g) => g,
            FG::Keyed(k) => &mut *k,
        }
    }
    fn find(&self, key: i64) -> Option<fg::Key> {
        self.keys.iter().copied().find(|k| key_int(k) == key)
    }
}

impl Cut for FutureGroupCut {
    fn poll(&mut self, cx: &mut Context<'_>) -> RetEv {
        match &mut self.g {
            FG::Plain(g) => match Pin::new(&mut **g).poll_next(cx) {
                Poll::Pending => RetEv::pending(),
                Poll::Ready(None) => RetEv::none(),
                Poll::Ready(Some(v)) => RetEv::some_v(v.release(), -1),
            },
            FG::Keyed(g) => match Pin::new(&mut **g).poll_next(cx) {
                Poll::Pending => RetEv::pending(),
                Poll::Ready(None) => RetEv::none(),
                Poll::Ready(Some((k, v))) => RetEv::some_v(v.release(), key_int(&k)),
            },
        }
    }
    fn is_stream(&self) -> bool {
        true
    }
    fn op(&mut self, op: Op) -> OpRes {
        match op {
            Op::Insert(c) => {
                let k = self.group().insert(SFut(Child::new(c)));
                self.keys.push(k);
                OpRes::Key(key_int(&k))
            }
            Op::Remove(key) => match self.find(key) {
                Some(k) => OpRes::Bool(self.group().remove(k)),
                None => OpRes::Unsupported,
            },
            Op::Reserve(n) => {
                self.group().reserve(n);
                OpRes::Unit
            }
            Op::Extend(cs, kind) => {
                // `extend` does not return keys and `Key` has no public constructor:
                // members added this way are reported with key -1 ("unnamed").
                let n = cs.len();
                self.group().extend(hinted(cs.into_iter().map(|c| SFut(Child::new(c))), kind));
                OpRes::Keys(vec![-1; n])
            }
            Op::FromIter(cs, kind) => {
                // `FromIterator`: the group the caller starts with is built by `collect()`
                let n = cs.len();
                let g: FutureGroup<SFut> = hinted(cs.into_iter().map(|c| SFut(Child::new(c))), kind).collect();
                self.g = match self.g {
                    FG::Plain(_) => FG::Plain(Box::new(g)),
                    FG::Keyed(_) => FG::Keyed(Box::new(g.keyed())),
                };
                self.keys.clear();
                OpRes::Keys(vec![-1; n])
            }
        }
    }
    fn view(&mut self, keys: &[i64]) -> Option<View> {
        let mut has = vec![];
        for &k in keys {
            if let Some(kk) = self.find(k) {
                if self.group().contains_key(kk) {
                    has.push(k);
                }
            }
        }
        let g = self.group();
        Some(View { len: g.len(), empty: g.is_empty(), cap: g.capacity(), has })
    }
}

pub fn future_group(cont: &str, cap: usize) -> Result<Box<dyn Cut>, String> {
    let g: FutureGroup<SFut> = if cap == 0 { FutureGroup::new() } else { FutureGroup::with_capacity(cap) };
    let g = match cont {
        "plain" => FG::Plain(Box::new(g)),
        "keyed" => FG::Keyed(Box::new(g.keyed())),
        _ => return Err(format!("future_group container {}", cont)),
    };
    Ok(Box::new(FutureGroupCut { g, keys: vec![] }))
}

enum SG {
    Plain(Box<StreamGroup<SStream>>),
    Keyed(Box<sg::Keyed<SStream>>),
}

pub struct StreamGroupCut {
    g: SG,
    keys: Vec<sg::Key>,
}

impl StreamGroupCut {
    fn group(&mut self) -> &mut StreamGroup<SStream> {
        match &mut self.g {
            SG::Plain(g) => g,
            SG::Keyed(k) => &mut *k,
        }
    }
    fn find(&self, key: i64) -> Option<sg::Key> {
        self.keys.iter().copied().find(|k| key_int(k) == key)
    }
}

impl Cut for StreamGroupCut {
    fn poll(&mut self, cx: &mut Context<'_>) -> RetEv {
        match &mut self.g {
            SG::Plain(g) => match Pin::new(&mut **g).poll_next(cx) {
                Poll::Pending => RetEv::pending(),
                Poll::Ready(None) => RetEv::none(),
                Poll::Ready(Some(v)) => RetEv::some_v(v.release(), -1),
            },
            SG::Keyed(g) => match Pin::new(&mut **g).poll_next(cx) {
                Poll::Pending => RetEv::pending(),
                Poll::Ready(None) => RetEv::none(),
                Poll::Ready(Some((k, v))) => RetEv::some_v(v.release(), key_int(&k)),
            },
        }
    }
    fn is_stream(&self) -> bool {
        true
    }
    fn op(&mut self, op: Op) -> OpRes {
        match op {
            Op::Insert(c) => {
                let k = self.group().insert(SStream(Child::new(c)));
                self.keys.push(k);
                OpRes::Key(key_int(&k))
            }
            Op::Remove(key) => match self.find(key) {
                Some(k) => OpRes::Bool(self.group().remove(k)),
                None => OpRes::Unsupported,
            },
            Op::Reserve(n) => {
                self.group().reserve(n);
                OpRes::Unit
            }
            Op::Extend(..) => OpRes::Unsupported,
            Op::FromIter(cs, kind) => {
                let n = cs.len();
                let g: StreamGroup<SStream> = hinted(cs.into_iter().map(|c| SStream(Child::new(c))), kind).collect();
                self.g = match self.g {
                    SG::Plain(_) => SG::Plain(Box::new(g)),
                    SG::Keyed(_) => SG::Keyed(Box::new(g.keyed())),
                };
                self.keys.clear();
                OpRes::Keys(vec![-1; n])
            }
        }
    }
    fn view(&mut self, keys: &[i64]) -> Option<View> {
        let mut has = vec![];
        for &k in keys {
            if let Some(kk) = self.find(k) {
                if self.group().contains_key(kk) {
                    has.push(k);
                }
            }
        }
        let g = self.group();
        Some(View { len: g.len(), empty: g.is_empty(), cap: g.capacity(), has })
    }
}

pub fn stream_group(cont: &str, cap: usize) -> Result<Box<dyn Cut>, String> {
    let g: StreamGroup<SStream> = if cap == 0 { StreamGroup::new() } else { StreamGroup::with_capacity(cap) };
    let g = match cont {
        "plain" => SG::Plain(Box::new(g)),
        "keyed" => SG::Keyed(Box::new(g.keyed())),
        _ => return Err(format!("stream_group container {}", cont)),
    };
    Ok(Box::new(StreamGroupCut { g, keys: vec![] }))
}
