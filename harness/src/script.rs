//! Scripted children and tagged values.

use std::fmt;
use std::future::Future;
use std::pin::Pin;
use std::task::{Context, Poll};

use futures_core::Stream;

use crate::world::{self, with, Ans, VState, MAGIC};

/// A value produced by a child. Its drop is an observable event.
pub struct Val {
    pub id: u64,
    pub magic: u64,
}

impl Val {
    pub fn new(id: u64) -> Val {
        with(|w| {
            w.vals.insert(id, VState::Live);
        });
        Val { id, magic: MAGIC }
    }
    /// The harness received this value from the combinator: mark it returned.
    pub fn release(&self) -> i64 {
        let id = self.id;
        let magic_ok = self.magic == MAGIC;
        with(|w| {
            if !magic_ok {
                return -2;
            }
            match w.vals.get(&id).copied() {
                Some(VState::Live) => {
                    w.vals.insert(id, VState::Released);
                    id as i64
                }
                // returned twice / returned after drop / never produced: report as such
                Some(VState::Released) => -3,
                Some(VState::Gone) => -4,
                None => -5,
            }
        })
    }
}

impl fmt::Debug for Val {
    fn fmt(&self, f: &mut fmt::Formatter<'_>) -> fmt::Result {
        write!(f, "Val({})", self.id)
    }
}
impl fmt::Display for Val {
    fn fmt(&self, f: &mut fmt::Formatter<'_>) -> fmt::Result {
        write!(f, "Val({})", self.id)
    }
}
impl std::error::Error for Val {}

impl Drop for Val {
    fn drop(&mut self) {
        let id = self.id;
        let magic_ok = self.magic == MAGIC;
        with(|w| {
            if !magic_ok {
                w.ev(format_args!("{{\"e\":\"vdrop\",\"v\":-2,\"ok\":false}}"));
                return;
            }
            match w.vals.get(&id).copied() {
                Some(VState::Live) => {
                    w.vals.insert(id, VState::Gone);
                    w.ev(format_args!("{{\"e\":\"vdrop\",\"v\":{},\"ok\":true}}", id));
                }
                Some(VState::Released) => {
                    // dropped by the harness after it was returned: not an event
                    w.vals.insert(id, VState::Gone);
                }
                Some(VState::Gone) | None => {
                    w.ev(format_args!("{{\"e\":\"vdrop\",\"v\":{},\"ok\":false}}", id));
                }
            }
        });
    }
}

pub enum Out {
    Pending,
    Ready { ok: bool, v: Val },
    Some(Val),
    None,
}

/// Core of a scripted child.
pub struct Child {
    pub c: usize,
    pub magic: u64,
    /// the Ok output carries no value (unit futures)
    pub unit: bool,
    /// the future cannot fail: scripted errors are answered as Ok
    pub force_ok: bool,
}

impl Child {
    pub fn new(c: usize) -> Child {
        Child { c, magic: MAGIC, unit: false, force_ok: false }
    }
    pub fn new_infallible(c: usize, unit: bool) -> Child {
        Child { c, magic: MAGIC, unit, force_ok: true }
    }
    pub fn new_unit(c: usize) -> Child {
        Child { c, magic: MAGIC, unit: true, force_ok: false }
    }

    pub fn step(&mut self, cx: &mut Context<'_>, stream: bool) -> Out {
        let c = self.c;
        // 1. record the poll, remember the waker, find the step
        let (step, k) = with(|w| {
            w.ensure_child(c);
            let wk = cx.waker().clone();
            let (wid, pw) = w.wid_of(&wk);
            let k = w.polls[c];
            w.polls[c] += 1;
            w.handed[c].push(wk);
            w.fired_latest[c] = false;
            w.ev(format_args!(
                "{{\"e\":\"cpoll\",\"c\":{},\"k\":{},\"wid\":{},\"pw\":{}}}",
                c, k, wid, pw
            ));
            let cur = w.cursor[c];
            let sc = &w.scripts[c];
            let step = if cur < sc.steps.len() {
                w.cursor[c] += 1;
                Some(sc.steps[cur].clone())
            } else {
                None
            };
            (step, k)
        });
        // 2. tail behaviour
        let force_ok = self.force_ok;
        let (kind, ok, fires) = match step {
            Some(s) => (s.r, s.ok, s.fires),
            None => {
                let (tail, tail_ok, last) = with(|w| (w.scripts[c].tail.clone(), w.scripts[c].tail_ok, w.last_ans[c]));
                if tail == "never" {
                    ("p".to_string(), true, vec![])
                } else if last == Ans::Done {
                    // polled after completion (C03; never happens with the unchanged library): observable through the
                    // cpoll above.  Like a real child that is not fused, the script does not answer harmlessly: a
                    // finished stream produces one more item and a finished future resolves again, with a value of
                    // its own, so that whatever the combinator does with the answer shows in its results too.
                    // (at most a few times per run: a combinator that keeps coming back would never stop otherwise)
                    let again = with(|w| {
                        w.ghosts += 1;
                        w.ghosts <= 3
                    });
                    if again {
                        (if stream { "gs".to_string() } else { "gr".to_string() }, true, vec![])
                    } else {
                        (if stream { "n".to_string() } else { "p".to_string() }, true, vec![])
                    }
                } else if stream {
                    ("n".to_string(), true, vec![])
                } else {
                    ("r".to_string(), tail_ok, vec![])
                }
            }
        };
        let ok = ok || force_ok;
        // 3. in-poll fires
        for (fc, fk) in fires {
            let target = if fc == -2 { c } else { fc as usize };
            world::fire(target, fk, true);
        }
        // 4. answer
        let vid = (c as u64) * 1000 + k as u64;
        match kind.as_str() {
            "x" => {
                with(|w| {
                    w.ev(format_args!(
                        "{{\"e\":\"cret\",\"c\":{},\"k\":{},\"r\":\"panic\",\"ok\":true,\"v\":-1}}",
                        c, k
                    ))
                });
                panic!("scripted panic in child {}", c);
            }
            "r" if !stream => {
                let novalue = self.unit && ok;
                let v = if novalue { Val { id: u64::MAX, magic: 0 } } else { Val::new(vid) };
                with(|w| {
                    w.last_ans[c] = Ans::Done;
                    w.ev(format_args!(
                        "{{\"e\":\"cret\",\"c\":{},\"k\":{},\"r\":\"ready\",\"ok\":{},\"v\":{}}}",
                        c, k, ok, if novalue { -1 } else { vid as i64 }
                    ))
                });
                Out::Ready { ok, v }
            }
            "s" | "r" if stream => {
                let v = Val::new(vid);
                with(|w| {
                    w.last_ans[c] = Ans::Some;
                    w.ev(format_args!(
                        "{{\"e\":\"cret\",\"c\":{},\"k\":{},\"r\":\"some\",\"ok\":true,\"v\":{}}}",
                        c, k, vid
                    ))
                });
                Out::Some(v)
            }
            "gs" => {
                let v = Val::new(vid);
                with(|w| {
                    w.ev(format_args!(
                        "{{\"e\":\"cret\",\"c\":{},\"k\":{},\"r\":\"some\",\"ok\":true,\"v\":{}}}",
                        c, k, vid
                    ))
                });
                Out::Some(v)
            }
            "gr" => {
                let novalue = self.unit;
                let v = if novalue { Val { id: u64::MAX, magic: 0 } } else { Val::new(vid) };
                with(|w| {
                    w.ev(format_args!(
                        "{{\"e\":\"cret\",\"c\":{},\"k\":{},\"r\":\"ready\",\"ok\":true,\"v\":{}}}",
                        c, k, if novalue { -1 } else { vid as i64 }
                    ))
                });
                Out::Ready { ok: true, v }
            }
            "n" if stream => {
                with(|w| {
                    w.last_ans[c] = Ans::Done;
                    w.ev(format_args!(
                        "{{\"e\":\"cret\",\"c\":{},\"k\":{},\"r\":\"none\",\"ok\":true,\"v\":-1}}",
                        c, k
                    ))
                });
                Out::None
            }
            _ => {
                with(|w| {
                    if w.last_ans[c] != Ans::Done {
                        w.last_ans[c] = Ans::Pending;
                    }
                    w.ev(format_args!(
                        "{{\"e\":\"cret\",\"c\":{},\"k\":{},\"r\":\"pending\",\"ok\":true,\"v\":-1}}",
                        c, k
                    ))
                });
                Out::Pending
            }
        }
    }
}

impl Drop for Child {
    fn drop(&mut self) {
        let c = self.c;
        let magic_ok = self.magic == MAGIC;
        with(|w| {
            if !magic_ok {
                w.ev(format_args!("{{\"e\":\"cdrop\",\"c\":-2,\"ok\":false}}"));
                return;
            }
            w.ensure_child(c);
            w.cdrops[c] += 1;
            w.alive[c] = false;
            let first = w.cdrops[c] == 1;
            w.ev(format_args!("{{\"e\":\"cdrop\",\"c\":{},\"ok\":{}}}", c, first));
        });
    }
}

/// Future with output `Val`.
pub struct SFut(pub Child);
impl Future for SFut {
    type Output = Val;
    fn poll(mut self: Pin<&mut Self>, cx: &mut Context<'_>) -> Poll<Val> {
        match self.0.step(cx, false) {
            Out::Ready { v, .. } => Poll::Ready(v),
            _ => Poll::Pending,
        }
    }
}

/// Future with output `Result<Val, Val>`.
pub struct TFut(pub Child);
impl Future for TFut {
    type Output = Result<Val, Val>;
    fn poll(mut self: Pin<&mut Self>, cx: &mut Context<'_>) -> Poll<Result<Val, Val>> {
        match self.0.step(cx, false) {
            Out::Ready { ok: true, v } => Poll::Ready(Ok(v)),
            Out::Ready { ok: false, v } => Poll::Ready(Err(v)),
            _ => Poll::Pending,
        }
    }
}

/// Future with output `()` (deadlines, for_each work).
pub struct UFut(pub Child);
impl Future for UFut {
    type Output = ();
    fn poll(mut self: Pin<&mut Self>, cx: &mut Context<'_>) -> Poll<()> {
        match self.0.step(cx, false) {
            Out::Ready { v, .. } => {
                std::mem::forget(v);
                Poll::Ready(())
            }
            _ => Poll::Pending,
        }
    }
}

/// Future with output `Result<(), Val>` (try_for_each work).
pub struct RFut(pub Child);
impl Future for RFut {
    type Output = Result<(), Val>;
    fn poll(mut self: Pin<&mut Self>, cx: &mut Context<'_>) -> Poll<Result<(), Val>> {
        match self.0.step(cx, false) {
            Out::Ready { ok: true, v } => {
                std::mem::forget(v);
                Poll::Ready(Ok(()))
            }
            Out::Ready { ok: false, v } => Poll::Ready(Err(v)),
            _ => Poll::Pending,
        }
    }
}

/// Stream with item `Val`.
pub struct SStream(pub Child);
impl Stream for SStream {
    type Item = Val;
    fn poll_next(mut self: Pin<&mut Self>, cx: &mut Context<'_>) -> Poll<Option<Val>> {
        match self.0.step(cx, true) {
            Out::Some(v) => Poll::Ready(Some(v)),
            Out::None => Poll::Ready(None),
            _ => Poll::Pending,
        }
    }
    /// A valid size hint of the kind the script asks for (world::Script::hint), computed from what is left of the script.
    fn size_hint(&self) -> (usize, Option<usize>) {
        let c = self.0.c;
        with(|w| {
            if c >= w.scripts.len() {
                return (0, None);
            }
            let sc = &w.scripts[c];
            let cur = w.cursor[c].min(sc.steps.len());
            let rest = &sc.steps[cur..];
            let upto = rest.iter().position(|s| s.r == "n" || s.r == "x").unwrap_or(rest.len());
            let rem = rest[..upto].iter().filter(|s| s.r == "s").count();
            let ends = sc.tail != "never" || upto < rest.len();
            match sc.hint {
                1 => (rem, if ends { Some(rem) } else { None }),
                2 => (0, if ends { Some(rem + 3) } else { None }),
                3 => (0, Some(usize::MAX)),
                _ => (0, None),
            }
        })
    }
}
