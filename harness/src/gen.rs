//! Seeded random vector generator (sizes and shapes beyond what TLC enumerates).

use serde_json::{json, Value};

use crate::exec::{ScriptS, StepS, Vector};

pub struct Rng(u64);

impl Rng {
    pub fn new(seed: u64) -> Rng {
        let mut r = Rng(seed.wrapping_add(0x9E3779B97F4A7C15));
        r.next();
        r.next();
        r
    }
    pub fn next(&mut self) -> u64 {
        self.0 = self.0.wrapping_add(0x9E3779B97F4A7C15);
        let mut z = self.0;
        z = (z ^ (z >> 30)).wrapping_mul(0xBF58476D1CE4E5B9);
        z = (z ^ (z >> 27)).wrapping_mul(0x94D049BB133111EB);
        z ^ (z >> 31)
    }
    pub fn below(&mut self, n: u64) -> u64 {
        if n == 0 {
            0
        } else {
            self.next() % n
        }
    }
    pub fn chance(&mut self, pct: u64) -> bool {
        self.below(100) < pct
    }
}

fn step(r: &str) -> StepS {
    StepS { r: r.into(), ok: true, fires: vec![] }
}

fn rand_fires(rng: &mut Rng, nchildren: usize) -> Vec<(i64, i64)> {
    let mut f = vec![];
    if rng.chance(18) {
        f.push((-2, -1)); // self wake with the fresh waker
    }
    if nchildren > 0 && rng.chance(10) {
        f.push((rng.below(nchildren as u64) as i64, -1)); // someone's latest waker
    }
    if nchildren > 0 && rng.chance(5) {
        f.push((rng.below(nchildren as u64) as i64, rng.below(3) as i64)); // possibly stale
    }
    if rng.chance(4) {
        f.push((-2, -1));
        f.push((-2, -1)); // repeated
    }
    f
}

fn fut_script(rng: &mut Rng, n: usize, is_try: bool, maxp: u64, err_pct: u64) -> ScriptS {
    let np = rng.below(maxp + 1);
    let mut steps = vec![];
    for _ in 0..np {
        let mut s = step("p");
        s.fires = rand_fires(rng, n);
        steps.push(s);
    }
    let ok = !(is_try && rng.chance(err_pct));
    if rng.chance(50) {
        let mut s = step("r");
        s.ok = ok;
        s.fires = rand_fires(rng, n);
        steps.push(s);
        ScriptS { steps, tail: "done".into(), tail_ok: ok, hint: 0 }
    } else {
        ScriptS { steps, tail: "done".into(), tail_ok: ok, hint: 0 }
    }
}

fn stream_script(rng: &mut Rng, n: usize, maxlen: u64, pend_pct: u64) -> ScriptS {
    let len = rng.below(maxlen + 1);
    let mut steps = vec![];
    for _ in 0..len {
        let mut s = if rng.chance(pend_pct) { step("p") } else { step("s") };
        s.fires = rand_fires(rng, n);
        steps.push(s);
    }
    if rng.chance(30) {
        let mut s = step("n");
        s.fires = rand_fires(rng, n);
        steps.push(s);
    }
    // every kind is a valid size hint for what the script will do (script.rs: SStream::size_hint)
    let hint = if rng.chance(60) { 0 } else { 1 + rng.below(3) as u8 };
    ScriptS { steps, tail: "done".into(), tail_ok: true, hint }
}

fn rand_cmds(rng: &mut Rng, nchildren: usize, len: u64, group: bool, nmembers: usize) -> Vec<Value> {
    let mut cmds = vec![];
    for _ in 0..len {
        let d = rng.below(100);
        if group && d < 30 {
            let g = rng.below(100);
            if g < 50 {
                cmds.push(json!(["insert"]));
            } else if g < 72 {
                cmds.push(json!(["remove", rng.below(8)]));
            } else if g < 85 {
                cmds.push(json!(["reserve", rng.below(5)]));
            } else {
                cmds.push(json!(["extend", 1 + rng.below(3), rng.below(3)]));
            }
            continue;
        }
        let nc = if group { nmembers } else { nchildren };
        if d < 50 {
            cmds.push(json!(["poll"]));
        } else if d < 55 {
            cmds.push(json!(["pollr"]));
        } else if d < 78 {
            if nc > 0 {
                cmds.push(json!(["fire", rng.below(nc as u64), -1]));
            }
        } else if d < 86 {
            if nc > 0 {
                cmds.push(json!(["fire", rng.below(nc as u64), rng.below(3)]));
            }
        } else {
            cmds.push(json!(["run"]));
        }
    }
    cmds
}

/// A Vec length for the "any length" spec (n = 999): mostly next to a power of two or a multiple of 16 / 32
/// (bit-set blocks, inline-storage limits, cooperative budgets), otherwise uniform in 0..=130.
pub fn pick_len(rng: &mut Rng) -> usize {
    const EDGES: [usize; 24] = [7, 8, 9, 15, 16, 17, 21, 22, 23, 24, 31, 32, 33, 47, 48, 63, 64, 65, 66, 96, 97, 127, 128, 129];
    if rng.chance(65) {
        EDGES[rng.below(EDGES.len() as u64) as usize]
    } else {
        rng.below(131) as usize
    }
}

pub fn gen_vector(rng: &mut Rng, id: String, fam: &str, cont: &str, n: usize, profile: &str) -> Vector {
    if fam == "co" {
        return crate::co::gen_vector(rng, id, cont, n, profile);
    }
    let is_try = fam == "try_join" || fam == "race_ok";
    let is_stream = crate::cuts::is_stream_family(fam);
    let group = fam == "future_group" || fam == "stream_group";
    let mut x: i64 = -1;
    let mut scripts: Vec<ScriptS> = vec![];
    let nchildren = if group { 2 + rng.below(6) as usize } else { n };
    let big = n > 12;
    let maxp = if big { 1 } else { 3 };
    let err_pct = match profile {
        "allerr" => 100,
        "noerr" => 0,
        _ => [10, 35, 70][rng.below(3) as usize],
    };
    for _ in 0..nchildren {
        let s = if fam == "future_group" {
            fut_script(rng, nchildren, false, maxp, 0)
        } else if fam == "stream_group" {
            stream_script(rng, nchildren, 4, 35)
        } else if fam == "wait_until" || fam == "wait_until_stream" {
            // filled below
            ScriptS { steps: vec![], tail: "done".into(), tail_ok: true, hint: 0 }
        } else if is_stream {
            let maxlen = if big { 2 } else { 5 };
            stream_script(rng, nchildren, maxlen, 35)
        } else {
            fut_script(rng, nchildren, is_try, maxp, err_pct)
        };
        scripts.push(s);
    }
    if fam == "wait_until" {
        scripts[0] = fut_script(rng, 2, false, 3, 0);
        scripts[1] = fut_script(rng, 2, false, 3, 0);
    }
    if fam == "wait_until_stream" {
        scripts[0] = fut_script(rng, 2, false, 3, 0);
        scripts[1] = stream_script(rng, 2, 5, 35);
    }
    // shapes a purely random script seldom has: every child answers at once (an "eager" run: size- and
    // count-dependent behaviour such as budgets, block boundaries of the bit sets), or every child takes the
    // same number of polls
    if !group && !fam.starts_with("wait_until") && profile != "fair" {
        let shape = rng.below(100);
        if shape < 10 {
            for s in scripts.iter_mut() {
                s.steps.retain(|st| st.r != "p");
                for st in s.steps.iter_mut() {
                    st.fires.clear();
                }
            }
        } else if shape < 17 && !is_stream {
            let k = 1 + rng.below(2) as usize;
            for s in scripts.iter_mut() {
                let ok = s.tail_ok && s.steps.iter().all(|st| st.ok);
                s.steps = (0..k).map(|_| step("p")).collect();
                s.tail_ok = ok;
            }
        }
    }
    // never-completing children
    if (profile == "never" || (profile == "mixed" && rng.chance(15))) && nchildren > 0 && !fam.starts_with("wait_until") {
        let k = 1 + rng.below(std::cmp::max(1, nchildren as u64 / 2));
        for _ in 0..k {
            let c = rng.below(nchildren as u64) as usize;
            scripts[c].tail = "never".into();
            // drop any explicit terminal step
            scripts[c].steps.retain(|s| s.r == "p" || s.r == "s");
        }
    }
    // panic injection
    if profile == "panic" && nchildren > 0 {
        let c = rng.below(nchildren as u64) as usize;
        let at = rng.below(scripts[c].steps.len() as u64 + 1) as usize;
        scripts[c].steps.insert(at, step("x"));
    }
    // fairness: a designated input that always has an item
    if profile == "fair" && fam == "merge" && n > 0 {
        x = rng.below(n as u64) as i64;
        let len = 3 * n + 6;
        scripts[x as usize] = ScriptS { steps: (0..len).map(|_| step("s")).collect(), tail: "done".into(), tail_ok: true, hint: 0 };
    }
    let mut cmds = match profile {
        "wakeonly" | "fair" => vec![],
        // other threads fire handed wakers while the owner thread runs the wake-only executor
        "threads" => vec![json!(["poll"]), json!(["threads", 1 + rng.below(3), 10 + rng.below(40), rng.next() % 1000000])],
        _ => {
            let len = rng.below(if big { 6 } else { 14 });
            rand_cmds(rng, n, len, group, nchildren)
        }
    };
    if group && rng.chance(12) {
        // the group is built by `FromIterator` (collect) instead of new / with_capacity
        cmds.insert(0, json!(["fromiter", 1 + rng.below(4), rng.below(3)]));
    } else if group && profile != "mixed" {
        // make sure something is inserted
        cmds.insert(0, json!(["insert"]));
    }
    if group {
        // interleave a second phase: refill after the group drained
        if rng.chance(40) {
            cmds.push(json!(["settle"]));
            cmds.push(json!(["insert"]));
            cmds.push(json!(["insert"]));
        }
    }
    // cancellation at a random point
    if (profile == "drop" || (profile == "mixed" && rng.chance(20))) && !cmds.is_empty() {
        let at = rng.below(cmds.len() as u64 + 1) as usize;
        cmds.insert(at, json!(["drop"]));
    } else if profile == "drop" {
        cmds.push(json!(["drop"]));
    }
    match rng.below(10) {
        0 => {}
        1..=3 => cmds.push(json!(["settle_all"])),
        _ => cmds.push(json!(["settle"])),
    }
    // after the final result: stale wakes, and (where the type guards itself: an assertion, or merge's
    // state table) one more poll - what it returns is unspecified and not judged, but it must not reach a
    // child (C03).  race_ok's array / Vec impls have no such guard and are left alone (DESIGN.md 9).
    if !group && n > 0 && rng.chance(25) {
        cmds.push(json!(["fire", rng.below(n as u64), -1]));
        if rng.chance(30) {
            cmds.push(json!(["fire", rng.below(n as u64), 0]));
        }
        if matches!(fam, "join" | "try_join" | "race" | "merge" | "zip" | "chain" | "wait_until") && rng.chance(50) {
            cmds.push(json!(["repoll"]));
        }
    }
    Vector {
        id,
        fam: fam.into(),
        cont: cont.into(),
        n,
        scripts,
        cmds,
        x,
        limit: 0,
        stack: vec![],
        term: String::new(),
        src: String::new(),
    }
}
