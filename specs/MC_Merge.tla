------------------------------ MODULE MC_Merge ------------------------------
EXTENDS Merge, Json

B(rec, mp, mi, mf, ms, sp, mif, dr, pa, th) ==
  [rec |-> rec, maxPend |-> mp, maxItems |-> mi, maxFire |-> mf, maxStale |-> ms, maxSpur |-> sp, maxInFire |-> mif,
   drop |-> dr, panic |-> pa, threads |-> th]

Mk(n, feat, never, x, b) ==
  [fam |-> "merge", cont |-> "arr", n |-> n, feat |-> feat, sub |-> feat = "std", rdy |-> TRUE, stream |-> TRUE,
   fallible |-> FALSE, group |-> FALSE, never |-> never, x |-> x, maxX |-> 2 * n + 1,
   conts |-> <<"arr", "vec", "tup">>] @@ b

Feats == {"std", "alloc"}

CfgsQuick ==
  {[repoll |-> TRUE] @@ Mk(n, f, <<>>, -1, B(FALSE, 1, 1, 1, 1, 0, 0, FALSE, FALSE, FALSE)) : f \in Feats, n \in {0, 2}} \cup
  {[reuse |-> TRUE] @@ Mk(2, f, <<>>, -1, B(FALSE, 1, 1, 1, 0, 1, 0, FALSE, FALSE, FALSE)) : f \in Feats} \cup
  {Mk(2, f, <<>>, -1, B(FALSE, 1, 2, 2, 1, 1, 1, TRUE, TRUE, TRUE)) : f \in Feats}
  \cup {Mk(2, f, <<1>>, -1, B(FALSE, 1, 1, 2, 1, 1, 1, FALSE, FALSE, FALSE)) : f \in Feats}
  \cup {Mk(3, "std", <<>>, -1, B(FALSE, 1, 1, 1, 0, 1, 1, FALSE, FALSE, FALSE))}
  \cup {Mk(2, f, <<>>, x, B(FALSE, 1, 2, 1, 0, 1, 0, FALSE, FALSE, FALSE)) : f \in Feats, x \in {0, 1}}
  \cup {Mk(n, f, <<>>, -1, B(FALSE, 1, 1, 1, 0, 1, 1, TRUE, FALSE, FALSE)) : f \in Feats, n \in {0, 1}}

CfgsThorough ==
  CfgsQuick \cup
  {Mk(2, f, nv, -1, B(FALSE, 2, 2, 3, 1, 1, 2, TRUE, TRUE, TRUE)) : f \in Feats, nv \in {<<>>, <<0>>}}
  \cup {Mk(3, f, nv, -1, B(FALSE, 1, 2, 2, 1, 1, 1, TRUE, FALSE, FALSE)) : f \in Feats, nv \in {<<>>, <<1>>}}
  \cup {Mk(3, f, <<>>, x, B(FALSE, 1, 3, 1, 0, 1, 0, FALSE, FALSE, FALSE)) : f \in Feats, x \in {0, 1, 2}}
  \cup {Mk(4, "std", <<>>, -1, B(FALSE, 1, 1, 1, 0, 1, 0, FALSE, FALSE, FALSE))}

CfgsGenQ ==
  {Mk(2, f, <<>>, -1, B(TRUE, 1, 1, 1, 1, 1, 1, TRUE, TRUE, FALSE)) : f \in Feats}
  \cup {Mk(2, f, <<0>>, -1, B(TRUE, 1, 1, 1, 0, 0, 1, FALSE, FALSE, FALSE)) : f \in Feats}
  \cup {Mk(n, f, <<>>, -1, B(TRUE, 1, 1, 1, 0, 1, 1, TRUE, FALSE, FALSE)) : f \in Feats, n \in {0, 1}}

CfgsGen ==
  {Mk(2, f, <<>>, -1, B(TRUE, 1, 2, 2, 1, 1, 1, TRUE, TRUE, FALSE)) : f \in Feats}
  \cup {Mk(3, f, <<>>, -1, B(TRUE, 1, 1, 2, 1, 1, 1, TRUE, FALSE, FALSE)) : f \in Feats}
  \cup {Mk(2, f, <<0>>, -1, B(TRUE, 1, 1, 2, 0, 1, 1, FALSE, FALSE, FALSE)) : f \in Feats}
  \cup {Mk(2, f, <<>>, x, B(TRUE, 1, 1, 1, 0, 1, 0, FALSE, FALSE, FALSE)) : f \in Feats, x \in {0, 1}}
  \cup {Mk(n, f, <<>>, -1, B(TRUE, 1, 1, 1, 0, 1, 1, TRUE, FALSE, FALSE)) : f \in Feats, n \in {0, 1}}

CfgsLiveQ == {Mk(2, f, <<>>, -1, B(FALSE, 1, 1, 1, 1, 1, 1, FALSE, FALSE, FALSE)) : f \in Feats}
CfgsLive == {Mk(2, f, <<>>, -1, B(FALSE, 1, 2, 1, 1, 1, 1, FALSE, FALSE, FALSE)) : f \in Feats}
            \cup {Mk(3, f, <<>>, -1, B(FALSE, 1, 1, 1, 0, 0, 0, FALSE, FALSE, FALSE)) : f \in Feats}

ExportOK == ExportEnd => PrintT("VEC " \o ToJson([cfg |-> cfg, hist |-> hist']))
=============================================================================
