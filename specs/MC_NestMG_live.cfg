SPECIFICATION LiveSpec
CONSTANT Cfgs <- CfgsLive
PROPERTY Ends
CHECK_DEADLOCK FALSE
