SPECIFICATION Spec
CONSTANT Cfgs <- CfgsQuick
INVARIANT MonitorsQuiet Counts Chained Rearmed TypeOK
CHECK_DEADLOCK FALSE
