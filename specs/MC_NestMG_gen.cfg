SPECIFICATION Spec
CONSTANT Cfgs <- CfgsGen
INVARIANT MonitorsQuiet
VIEW view
ACTION_CONSTRAINT ExportOK
CHECK_DEADLOCK FALSE
