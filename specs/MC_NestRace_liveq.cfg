SPECIFICATION LiveSpec
CONSTANT Cfgs <- CfgsLiveQ
PROPERTY Resolves
CHECK_DEADLOCK FALSE
