-------------------------------- MODULE Race --------------------------------
(***************************************************************************)
(* Implementation-shaped (L2) specification of                             *)
(*   race     over arrays, Vecs and tuples   (cfg.fam = "race")            *)
(*     src/future/race/{array,vec,tuple}.rs  + utils/indexer.rs            *)
(*   race_ok  (cfg.fam = "race_ok"), three code shapes (cfg.cont):         *)
(*     "arr"  src/future/race_ok/array/mod.rs   index order, no done flag  *)
(*     "vec"  src/future/race_ok/vec/mod.rs     MaybeDone elements         *)
(*     "tup"  src/future/race_ok/tuple/mod.rs   rotating indexer + done    *)
(* All of them poll their children with the caller's own waker (cx is      *)
(* passed through), so there is no readiness record (cfg.rdy = FALSE).     *)
(*                                                                         *)
(* fs: done, offset (Indexer), order (indices still to visit in this poll),*)
(*     es (per child: race_ok arr/tup PollState "P"|"R"|"N";               *)
(*         race_ok vec MaybeDone "F"uture|"E" Done(Err)|"G"one),           *)
(*     errs (stored error per child, -1 = uninitialised), completed,       *)
(*     allDone (race_ok vec: the local all_done of this poll)              *)
(***************************************************************************)
EXTENDS L2Env

IsRace == cfg.fam = "race"
Shape == IF IsRace THEN "race" ELSE cfg.cont

FsInit(c) == [done |-> FALSE, offset |-> 0, order |-> <<>>,
              es |-> [i \in 0..(c.n - 1) |-> IF c.fam = "race_ok" /\ c.cont = "vec" THEN "F" ELSE "P"],
              errs |-> [i \in 0..(c.n - 1) |-> -1], completed |-> 0, allDone |-> TRUE]

InitFor(c) == InitEnv(c, c.n, FsInit(c))
Init == \E c \in Cfgs : InitFor(c)

Rotated(off) == [k \in 1..N |-> (k - 1 + off) % N]      \* Indexer::iter (utils/indexer.rs)
ErrSeq(f) == [i \in 1..N |-> f.errs[i - 1]]

---------------------------------------------------------------------------
(* start of poll: the `done` assertion, the iteration order *)
PollBegin ==
  /\ pc = "begin"
  /\ ~fs.done                                   \* (assert!(!done): the caller never polls after the final result)
  /\ IF Shape \in {"race", "tup"}
       THEN fs' = [fs EXCEPT !.order = Rotated(fs.offset), !.offset = (fs.offset + 1) % N]
       ELSE fs' = [fs EXCEPT !.order = UpTo(N), !.allDone = TRUE]
  /\ pc' = "scan"
  /\ Emit(<<>>) /\ NoRet
  /\ UNCHANGED <<cfg, rd, cur, ans, alive, pend, nit, polls, handed, firedL, gen, wokenL, started,
                 nfire, nstale, nspur, ninfire, seen, conc, quiesced>>

(* one iteration of the loop up to handing the caller's waker to the child; or the end of the loop *)
ScanStep ==
  /\ pc = "scan"
  /\ IF fs.order = <<>>
       THEN \* after the loop
            IF Shape = "race" THEN
                 /\ Ret("pending") /\ Emit(<<EvRet("pending", TRUE, -1, <<>>, -1)>>)
                 /\ UNCHANGED <<fs, cur, handV>>
            ELSE IF (Shape \in {"arr", "tup"} /\ fs.completed = N) \/ (Shape = "vec" /\ fs.allDone) THEN
                 \* every child failed: hand out the aggregate error, mark the error slots consumed
                 /\ fs' = [fs EXCEPT !.es = [i \in 0..(N - 1) |-> IF Shape = "vec" THEN "G" ELSE "N"],
                                     !.done = IF Shape = "tup" THEN TRUE ELSE @]
                 /\ Ret("ready") /\ Emit(<<EvRet("ready", FALSE, -1, ErrSeq(fs), -1)>>)
                 /\ UNCHANGED <<cur, handV>>
            ELSE /\ Ret("pending") /\ Emit(<<EvRet("pending", TRUE, -1, <<>>, -1)>>)
                 /\ UNCHANGED <<fs, cur, handV>>
       ELSE LET i == Head(fs.order) IN
            IF (Shape \in {"arr", "tup"} /\ fs.es[i] = "R") \/ (Shape = "vec" /\ fs.es[i] = "E")
              THEN \* a child that has failed is skipped (vec: MaybeDone::Done answers Ready without polling)
                   /\ fs' = [fs EXCEPT !.order = Tail(@)]
                   /\ pc' = "scan" /\ Emit(<<>>) /\ NoRet /\ UNCHANGED <<cur, handV>>
              ELSE /\ HandOut(i, <<"p", gen>>)
                   /\ Emit(<<CpollEv(i, <<"p", gen>>)>>) /\ NoRet /\ UNCHANGED fs
  /\ UNCHANGED <<cfg, rd, ans, alive, pend, nit, gen, wokenL, started, nfire, nstale, nspur, ninfire, conc, quiesced>>

ChildAnswer ==
  /\ pc = "inchild"
  /\ \E a \in Answers(cur, FALSE) :
       LET c == cur
           v == Val(c) IN
       /\ ChildSays(c, a)
       /\ IF a.r = "pending" THEN
               /\ fs' = [fs EXCEPT !.order = Tail(@), !.allDone = FALSE]
               /\ pc' = "scan" /\ NoRet /\ UNCHANGED alive
               /\ Emit(<<CretEv(c, a)>>)
          ELSE IF a.ok THEN
               \* the winner
               /\ fs' = [fs EXCEPT !.done = IF Shape \in {"race", "tup"} THEN TRUE ELSE @,
                                   !.completed = IF Shape = "tup" THEN @ + 1 ELSE @,
                                   !.es = IF Shape = "vec" THEN [@ EXCEPT ![c] = "G"] ELSE @]
               /\ Ret("ready")
               /\ alive' = IF Shape = "vec" THEN [alive EXCEPT ![c] = FALSE] ELSE alive
               /\ Emit(<<CretEv(c, a)>> \o (IF Shape = "vec" THEN <<EvCdrop(c)>> ELSE <<>>) \o <<EvRet("ready", TRUE, v, <<>>, -1)>>)
          ELSE \* a failure (race_ok only): store the error, go on
               /\ fs' = [fs EXCEPT !.errs[c] = v, !.completed = @ + 1, !.order = Tail(@),
                                   !.es[c] = IF Shape = "vec" THEN "E" ELSE "R"]
               /\ pc' = "scan" /\ NoRet
               /\ alive' = IF Shape = "vec" THEN [alive EXCEPT ![c] = FALSE] ELSE alive
               /\ Emit(<<CretEv(c, a)>> \o (IF Shape = "vec" THEN <<EvCdrop(c)>> ELSE <<>>))
  /\ UNCHANGED <<cfg, rd, cur, polls, handed, firedL, gen, wokenL, started, nfire, nstale, nspur, ninfire, seen, conc, quiesced>>

(* Drop: PinnedDrop (race_ok arr/tup: initialised errors), then the fields (children in order);   *)
(* race_ok vec: the MaybeDone elements in order (a pending future, or a stored error)             *)
DropEvents ==
  IF Shape = "vec"
    THEN LET evOf(i) == IF fs.es[i] = "F" THEN <<EvCdrop(i)>> ELSE IF fs.es[i] = "E" THEN <<EvVdrop(fs.errs[i])>> ELSE <<>>
             RECURSIVE Cat(_)
             Cat(i) == IF i >= N THEN <<>> ELSE evOf(i) \o Cat(i + 1)
         IN Cat(0)
    ELSE MapSeq(SelectSeq(UpTo(N), LAMBDA i : Shape # "race" /\ fs.es[i] = "R"), LAMBDA i : EvVdrop(fs.errs[i]))
         \o MapSeq(UpTo(N), LAMBDA i : EvCdrop(i))

Drop == DropWith(DropEvents)
ChildPanic == PanicWith(DropEvents)

\* race asserts `!done`; race_ok is left alone (no guard in the array / Vec impls)
Repoll == IsRace /\ RepollPanics(DropEvents)
Next == EnvNext \/ PollBegin \/ ScanStep \/ ChildAnswer \/ ChildPanic \/ Drop \/ Repoll
NextLive == Next \/ \E c \in Ch : OwedWake(c)

Spec == Init /\ [][Next]_vars
LiveSpec == Init /\ [][NextLive]_vars
            /\ WF_vars(Poll /\ (~started \/ wokenL)) /\ WF_vars(PollBegin) /\ WF_vars(ScanStep) /\ WF_vars(ChildAnswer)
            /\ \A c \in 0..3 : WF_vars(OwedWake(c))

---------------------------------------------------------------------------
TypeOK == /\ EnvTypeOK
          /\ fs.completed <= N
          /\ (Shape \in {"arr", "tup"} /\ ~final) => fs.completed = Cardinality({i \in 0..(N - 1) : fs.es[i] = "R"})
\* an error slot is initialised exactly when its state says so (what PinnedDrop relies on)
ErrSlots == Shape \in {"arr", "tup"} => \A i \in 0..(N - 1) : (fs.es[i] = "R") => fs.errs[i] >= 0
\* liveness: without never-completing children and without cancellation the future resolves
Resolves == (cfg.never = <<>> /\ ~cfg.drop /\ ~cfg.panic) => <>(final)
=============================================================================
