SPECIFICATION TSpec
CONSTANT Cfgs <- TraceCfgs
INVARIANT Progress
CHECK_DEADLOCK FALSE
