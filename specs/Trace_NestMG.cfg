SPECIFICATION TSpec
CONSTANT Cfgs <- TraceCfgs
INVARIANT Accepted
CHECK_DEADLOCK FALSE
