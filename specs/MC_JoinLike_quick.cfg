SPECIFICATION Spec
CONSTANT Cfgs <- CfgsQuick
INVARIANT MonitorsQuiet ReadinessCount ParentPresent ParentLatest TypeOK
CHECK_DEADLOCK FALSE
