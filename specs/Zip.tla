-------------------------------- MODULE Zip --------------------------------
(***************************************************************************)
(* Implementation-shaped (L2) specification of zip over arrays, Vecs and   *)
(* tuples (one or more inputs): src/stream/zip/{array,vec,tuple}.rs +      *)
(* utils/wakers.                                                           *)
(*                                                                         *)
(* fs: st (PollState per input: "P" pending | "R" ready = its item for the *)
(*     current row is buffered), row (buffered item per input, -1 =        *)
(*     uninitialised), done, idx (loop index)                              *)
(* Deliberate deviation kept as the code has it: zipping zero inputs pends *)
(* for ever (outside C09, which is stated for one or more inputs).         *)
(***************************************************************************)
EXTENDS L2Env

FsInit(c) == [st |-> [i \in 0..(c.n - 1) |-> "P"], row |-> [i \in 0..(c.n - 1) |-> -1], done |-> FALSE, idx |-> 0]
InitFor(c) == InitEnv(c, c.n, FsInit(c))
Init == \E c \in Cfgs : InitFor(c)

RowSeq(r) == [i \in 1..N |-> r[i - 1]]

(* poll_next: assert !done; lock; set_waker (zip/array.rs:64-70) *)
PollBegin ==
  /\ pc = "begin" /\ ~fs.done
  /\ rd' = RSetWaker(rd, gen)
  /\ fs' = [fs EXCEPT !.idx = 0]
  /\ pc' = "scan" /\ NoRet /\ Emit(<<>>)
  /\ UNCHANGED <<cfg, cur, ans, alive, pend, nit, polls, handed, firedL, gen, wokenL, started,
                 nfire, nstale, nspur, ninfire, seen, conc, quiesced>>

(* one iteration: any_ready early-out; the state test comes first, so the bit of an input whose      *)
(* item is buffered is left alone; clear_ready; unlock; hand out the sub-waker (zip/array.rs:71-86)  *)
ScanStep ==
  /\ pc = "scan"
  /\ IF fs.idx >= N \/ ~RAny(rd)
       THEN /\ Ret("pending") /\ Emit(<<EvRet("pending", TRUE, -1, <<>>, -1)>>)
            /\ UNCHANGED <<fs, rd, cur, handV>>
       ELSE LET i == fs.idx IN
            IF fs.st[i] = "R"
              THEN /\ fs' = [fs EXCEPT !.idx = @ + 1]
                   /\ pc' = "scan" /\ NoRet /\ Emit(<<>>) /\ UNCHANGED <<rd, cur, handV>>
              ELSE /\ rd' = RClear(rd, i)
                   /\ IF ~RClearOld(rd, i)
                        THEN /\ fs' = [fs EXCEPT !.idx = @ + 1]
                             /\ pc' = "scan" /\ NoRet /\ Emit(<<>>) /\ UNCHANGED <<cur, handV>>
                        ELSE /\ HandOut(i, WakerFor(i))
                             /\ Emit(<<CpollEv(i, WakerFor(i))>>) /\ NoRet /\ UNCHANGED fs
  /\ UNCHANGED <<cfg, ans, alive, pend, nit, gen, wokenL, started, nfire, nstale, nspur, ninfire, conc, quiesced>>

(* the input answers (zip/array.rs:87-117) *)
ChildAnswer ==
  /\ pc = "inchild"
  /\ \E a \in Answers(cur, TRUE) :
       LET c == cur
           v == Val(c) IN
       /\ ChildSays(c, a)
       /\ CASE a.r = "pending" ->
                 /\ fs' = [fs EXCEPT !.idx = @ + 1]
                 /\ pc' = "scan" /\ NoRet /\ UNCHANGED rd
                 /\ Emit(<<CretEv(c, a)>>)
            [] a.r = "some" ->
                 LET row1 == [fs.row EXCEPT ![c] = v]
                     st1 == [fs.st EXCEPT ![c] = "R"] IN
                 IF \A i \in 0..(N - 1) : st1[i] = "R"
                   THEN \* the row is complete: every input has to be polled again, take the output
                        /\ rd' = RSetAll(rd)
                        /\ fs' = [fs EXCEPT !.st = [i \in 0..(N - 1) |-> "P"], !.row = [i \in 0..(N - 1) |-> -1]]
                        /\ Ret("some")
                        /\ Emit(<<CretEv(c, a), EvRet("some", TRUE, -1, RowSeq(row1), -1)>>)
                   ELSE /\ fs' = [fs EXCEPT !.st = st1, !.row = row1, !.idx = @ + 1]
                        /\ pc' = "scan" /\ NoRet /\ UNCHANGED rd
                        /\ Emit(<<CretEv(c, a)>>)
            [] a.r = "none" ->
                 /\ fs' = [fs EXCEPT !.done = TRUE]
                 /\ Ret("none") /\ UNCHANGED rd
                 /\ Emit(<<CretEv(c, a), EvRet("none", TRUE, -1, <<>>, -1)>>)
  /\ UNCHANGED <<cfg, cur, alive, polls, handed, firedL, gen, wokenL, started, nfire, nstale, nspur, ninfire, seen, conc, quiesced>>

(* PinnedDrop: the buffered items; then the fields: the inputs in order *)
DropEvents ==
  MapSeq(SelectSeq(UpTo(N), LAMBDA i : fs.st[i] = "R"), LAMBDA i : EvVdrop(fs.row[i]))
  \o MapSeq(UpTo(N), LAMBDA i : EvCdrop(i))
Drop == DropWith(DropEvents)
ChildPanic == PanicWith(DropEvents)

Repoll == RepollPanics(DropEvents)        \* assert!(!done) / Completed => panic
Next == EnvNext \/ PollBegin \/ ScanStep \/ ChildAnswer \/ ChildPanic \/ Drop \/ Repoll
NextLive == Next \/ \E c \in Ch : OwedWake(c)
Spec == Init /\ [][Next]_vars
LiveSpec == Init /\ [][NextLive]_vars
            /\ WF_vars(Poll /\ (~started \/ wokenL \/ needPoll)) /\ WF_vars(PollBegin) /\ WF_vars(ScanStep) /\ WF_vars(ChildAnswer)
            /\ \A c \in 0..3 : WF_vars(OwedWake(c))

---------------------------------------------------------------------------
TypeOK == /\ EnvTypeOK
          /\ \A i \in 0..(N - 1) : (fs.st[i] = "R") <=> (fs.row[i] >= 0)     \* what PinnedDrop relies on
ParentLatest == (pc = "idle" /\ started) => rd.parent = gen
\* after a row every input is marked ready again
RowRearm == (Sub /\ pc = "idle" /\ needPoll) => \A c \in Ch : rd.bits[c]
Ends == (cfg.never = <<>> /\ ~cfg.drop /\ ~cfg.panic) => <>(final)
=============================================================================
