------------------------------- MODULE Chain -------------------------------
(***************************************************************************)
(* Implementation-shaped (L2) specification of chain over arrays, Vecs and *)
(* tuples: src/stream/chain/{array,vec,tuple}.rs.  The current input is    *)
(* polled with the caller's own waker; there is no readiness record.       *)
(* fs: index, done                                                         *)
(***************************************************************************)
EXTENDS L2Env

FsInit(c) == [index |-> 0, done |-> FALSE]
InitFor(c) == InitEnv(c, c.n, FsInit(c))
Init == \E c \in Cfgs : InitFor(c)

PollBegin ==
  /\ pc = "begin" /\ ~fs.done
  /\ pc' = "scan" /\ NoRet /\ Emit(<<>>)
  /\ UNCHANGED <<cfg, fs, rd, cur, ans, alive, pend, nit, polls, handed, firedL, gen, wokenL, started,
                 nfire, nstale, nspur, ninfire, seen, conc, quiesced>>

(* loop head: index == len => done, None; else poll the current input (chain/array.rs:36-45) *)
ScanStep ==
  /\ pc = "scan"
  /\ IF fs.index = N
       THEN /\ fs' = [fs EXCEPT !.done = TRUE]
            /\ Ret("none") /\ Emit(<<EvRet("none", TRUE, -1, <<>>, -1)>>)
            /\ UNCHANGED <<cur, handV>>
       ELSE /\ HandOut(fs.index, <<"p", gen>>)
            /\ Emit(<<CpollEv(fs.index, <<"p", gen>>)>>) /\ NoRet /\ UNCHANGED fs
  /\ UNCHANGED <<cfg, rd, ans, alive, pend, nit, gen, wokenL, started, nfire, nstale, nspur, ninfire, conc, quiesced>>

ChildAnswer ==
  /\ pc = "inchild"
  /\ \E a \in Answers(cur, TRUE) :
       LET c == cur IN
       /\ ChildSays(c, a)
       /\ CASE a.r = "pending" ->
                 /\ Ret("pending") /\ UNCHANGED fs
                 /\ Emit(<<CretEv(c, a), EvRet("pending", TRUE, -1, <<>>, -1)>>)
            [] a.r = "some" ->
                 /\ Ret("some") /\ UNCHANGED fs
                 /\ Emit(<<CretEv(c, a), EvRet("some", TRUE, Val(c), <<>>, -1)>>)
            [] a.r = "none" ->
                 /\ fs' = [fs EXCEPT !.index = @ + 1]
                 /\ pc' = "scan" /\ NoRet
                 /\ Emit(<<CretEv(c, a)>>)
  /\ UNCHANGED <<cfg, rd, cur, alive, polls, handed, firedL, gen, wokenL, started, nfire, nstale, nspur, ninfire, seen, conc, quiesced>>

DropEvents == MapSeq(UpTo(N), LAMBDA i : EvCdrop(i))
Drop == DropWith(DropEvents)
ChildPanic == PanicWith(DropEvents)

Repoll == RepollPanics(DropEvents)        \* assert!(!done) / Completed => panic
Next == EnvNext \/ PollBegin \/ ScanStep \/ ChildAnswer \/ ChildPanic \/ Drop \/ Repoll
NextLive == Next \/ \E c \in Ch : OwedWake(c)
Spec == Init /\ [][Next]_vars
LiveSpec == Init /\ [][NextLive]_vars
            /\ WF_vars(Poll /\ (~started \/ wokenL \/ needPoll)) /\ WF_vars(PollBegin) /\ WF_vars(ScanStep) /\ WF_vars(ChildAnswer)
            /\ \A c \in 0..3 : WF_vars(OwedWake(c))

---------------------------------------------------------------------------
TypeOK == /\ EnvTypeOK /\ fs.index \in 0..N
\* strictly sequential: everything before the current input has ended, nothing after it was touched
Sequential == \A c \in Ch : (c < fs.index => ans[c] = "done") /\ (c > fs.index => polls[c] = 0)
Ends == (cfg.never = <<>> /\ ~cfg.drop /\ ~cfg.panic) => <>(final)
=============================================================================
