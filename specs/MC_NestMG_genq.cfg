SPECIFICATION Spec
CONSTANT Cfgs <- CfgsGenQ
INVARIANT MonitorsQuiet
VIEW view
ACTION_CONSTRAINT ExportOK
CHECK_DEADLOCK FALSE
