---------------------------- MODULE MC_WaitUntil ----------------------------
EXTENDS WaitUntil, Json

B(rec, mp, mi, mf, ms, sp, mif, dr, pa) ==
  [rec |-> rec, maxPend |-> mp, maxItems |-> mi, maxFire |-> mf, maxStale |-> ms, maxSpur |-> sp, maxInFire |-> mif,
   drop |-> dr, panic |-> pa, threads |-> FALSE]

Mk(fam, never, b) ==
  [fam |-> fam, cont |-> "x", n |-> 2, feat |-> "alloc", sub |-> FALSE, rdy |-> FALSE, stream |-> fam = "wait_until_stream",
   fallible |-> FALSE, group |-> FALSE, never |-> never, x |-> -1, conts |-> <<"x">>] @@ b

Fams == {"wait_until", "wait_until_stream"}
CfgsQuick == {[repoll |-> TRUE] @@ Mk("wait_until", <<>>, B(FALSE, 1, 1, 1, 0, 0, 0, FALSE, FALSE))} \cup
             {[reuse |-> TRUE] @@ Mk(f, <<>>, B(FALSE, 1, 1, 1, 0, 1, 0, FALSE, FALSE)) : f \in Fams} \cup
             {Mk(f, <<>>, B(FALSE, 2, 2, 2, 1, 1, 1, TRUE, TRUE)) : f \in Fams}
             \cup {Mk(f, nv, B(FALSE, 1, 1, 1, 0, 1, 1, FALSE, FALSE)) : f \in Fams, nv \in {<<0>>, <<1>>}}
CfgsThorough == CfgsQuick \cup {Mk(f, nv, B(FALSE, 3, 2, 3, 1, 2, 2, TRUE, TRUE)) : f \in Fams, nv \in {<<>>, <<0>>, <<1>>}}
CfgsGenQ == {Mk(f, <<>>, B(TRUE, 2, 1, 2, 1, 1, 1, TRUE, TRUE)) : f \in Fams}
            \cup {Mk(f, nv, B(TRUE, 1, 1, 1, 0, 1, 1, FALSE, FALSE)) : f \in Fams, nv \in {<<0>>, <<1>>}}
CfgsGen == {Mk(f, <<>>, B(TRUE, 3, 2, 3, 1, 2, 2, TRUE, TRUE)) : f \in Fams}
           \cup {Mk(f, nv, B(TRUE, 1, 1, 2, 1, 1, 1, FALSE, FALSE)) : f \in Fams, nv \in {<<0>>, <<1>>}}
CfgsLiveQ == {Mk(f, <<>>, B(FALSE, 2, 1, 1, 1, 1, 1, FALSE, FALSE)) : f \in Fams}
CfgsLive == {Mk(f, <<>>, B(FALSE, 3, 2, 2, 1, 1, 1, FALSE, FALSE)) : f \in Fams}

ExportOK == ExportEnd => PrintT("VEC " \o ToJson([cfg |-> cfg, hist |-> hist']))
=============================================================================
