------------------------------ MODULE JoinLike ------------------------------
(***************************************************************************)
(* Implementation-shaped (L2) specification of                             *)
(*   join / try_join  over arrays and Vecs  (variant "arr")                *)
(*     src/future/join/array.rs, join/vec.rs, try_join/array.rs, vec.rs    *)
(*   join / try_join  over tuples           (variant "tup")                *)
(*     src/future/join/tuple.rs, try_join/tuple.rs                         *)
(* with the std sub-waker protocol (mode "std": utils/wakers/*/waker.rs,   *)
(* readiness_*.rs, waker_*.rs) or the alloc/no_std poll-everything         *)
(* strategy (mode "pollall": utils/wakers/*/no_std.rs).                    *)
(*                                                                         *)
(* One action per critical section of the code; a child's poll is two      *)
(* actions (ScanStep hands the waker out and releases the readiness lock,  *)
(* ChildAnswer consumes the child's answer) so that any Wake can be        *)
(* interleaved.  The environment (children, wakers, caller) is part of the *)
(* specification and nondeterministic within the bounds of cfg.            *)
(*                                                                         *)
(* Every action emits the observable events of DESIGN.md 3.3 into the      *)
(* property monitors (m) and into hist, which therefore is the predicted   *)
(* trace of the real code for the same schedule.                           *)
(***************************************************************************)
EXTENDS Naturals, Integers, Sequences, FiniteSets, TLC, Monitors

CONSTANTS Cfgs      \* set of configuration records, see MC_JoinLike*.cfg

VARIABLES
  cfg,       \* the configuration of this behaviour (chosen in Init, never changed)
  \* ---- the combinator (fields of Join / TryJoin) ----
  st,        \* PollState per child: "P" pending, "R" ready (output stored), "N" none
  cnt,       \* arr: `pending` (children in flight);  tup: `completed`
  consumed,  \* `consumed` (arr, try tup) / completed == LEN (join tup)
  out,       \* output slots: value id or -1 (uninitialised)
  bits,      \* readiness bits (std)
  count,     \* number of set bits (std)
  parent,    \* generation of the stored parent waker, -1 = None
  pc,        \* "idle" | "begin" | "scan" | "inchild" | "dropped" | "end"
  idx,       \* loop index of the scan
  \* ---- the environment ----
  ans,       \* per child: "new" | "pending" | "done"
  pend,      \* per child: number of Pending answers given
  polls,     \* per child: number of polls (the k of the next poll)
  handed,    \* per child: sequence of waker identities handed out, in order
  firedL,    \* per child: its latest waker has been invoked since its last poll began
  gen,       \* generation of the latest caller waker
  wokenL,    \* the latest caller waker has been invoked since the latest poll began
  started,   \* polled at least once
  final,     \* the combinator returned its final result
  nfire, nstale, nspur, ninfire,   \* budgets used
  seen,      \* waker identities in first-seen order (their position - 1 is the harness' wid)
  conc,      \* a step happened that only a second thread could produce (not replayable single-threaded)
  quiesced,
  m,         \* the property monitors
  hist       \* emitted events

vars == <<cfg, st, cnt, consumed, out, bits, count, parent, pc, idx, ans, pend, polls, handed, firedL,
          gen, wokenL, started, final, nfire, nstale, nspur, ninfire, seen, conc, quiesced, m, hist>>

view == <<cfg, st, cnt, consumed, out, bits, count, parent, pc, idx, ans, pend, polls, handed, firedL,
          gen, wokenL, started, final, nfire, nstale, nspur, ninfire, seen, conc, quiesced, m>>

N == cfg.n
Ch == 0..(N - 1)
\* optional flags (absent = FALSE): trace validation mode, the caller may present the previous waker again
TraceMode == "trace" \in DOMAIN cfg /\ cfg.trace
Reuse == "reuse" \in DOMAIN cfg /\ cfg.reuse
Repollable == TraceMode \/ ("repoll" \in DOMAIN cfg /\ cfg.repoll)
Std == cfg.mode = "std"
Try == cfg.kind = "try_join"
Arr == cfg.variant = "arr"

---------------------------------------------------------------------------
(* events *)
EvNew == [e |-> "new", id |-> "l2", fam |-> cfg.kind, cont |-> cfg.variant, n |-> cfg.n,
          feat |-> IF Std THEN "std" ELSE "alloc", stream |-> FALSE, sub |-> Std,
          never |-> cfg.never, x |-> -1, limit |-> 0, take |-> -1, nmaps |-> 0, term |-> "", stack |-> "[]"]
EvPoll(g) == [e |-> "poll", g |-> g]
EvCpoll(c, k, wid, pw) == [e |-> "cpoll", c |-> c, k |-> k, wid |-> wid, pw |-> pw]
EvCret(c, k, r, ok, v) == [e |-> "cret", c |-> c, k |-> k, r |-> r, ok |-> ok, v |-> v]
EvFire(c, k, wid, inp) == [e |-> "fire", c |-> c, k |-> k, wid |-> wid, inp |-> inp]
EvPwake(g) == [e |-> "pwake", g |-> g]
EvFired(c, k) == [e |-> "fired", c |-> c, k |-> k]
EvRet(r, ok, v, o) == [e |-> "ret", r |-> r, ok |-> ok, v |-> v, out |-> o, key |-> -1]
EvCdrop(c) == [e |-> "cdrop", c |-> c, ok |-> TRUE]
EvVdrop(v) == [e |-> "vdrop", v |-> v, ok |-> TRUE]
Ev(name) == [e |-> name]

Emit(es) == /\ m' = MonSteps(m, es)
            /\ hist' = IF cfg.rec THEN hist \o es ELSE hist

\* the identity of the waker handed to child c in a poll of generation g
WakerOf(c, g) == IF Std THEN <<"s", c>> ELSE <<"p", g>>
WidIn(s, w) == (CHOOSE i \in DOMAIN s : s[i] = w) - 1
Seen1(w) == IF \E i \in DOMAIN seen : seen[i] = w THEN seen ELSE Append(seen, w)

\* helpers to build event sequences in index order
IdxSeq == [i \in 1..N |-> i - 1]
MapSeq(s, Op(_)) == [i \in DOMAIN s |-> Op(s[i])]

---------------------------------------------------------------------------
(* Readiness (utils/wakers/{array,vec}/readiness_*.rs; no_std.rs in mode "pollall") *)
AnyReady == IF Std THEN count > 0 ELSE TRUE
\* clear_ready(i): returns the old bit
ClearOld(i) == IF Std THEN bits[i] ELSE TRUE
ClearBits(i) == IF Std /\ bits[i] THEN [bits EXCEPT ![i] = FALSE] ELSE bits
ClearCount(i) == IF Std /\ bits[i] THEN count - 1 ELSE count

CountOK == Std => count = Cardinality({i \in Ch : bits[i]})

---------------------------------------------------------------------------
InitFor(c) ==
  /\ cfg = c
  /\ st = [i \in 0..(c.n - 1) |-> "P"]
  /\ cnt = IF c.variant = "arr" THEN c.n ELSE 0
  /\ consumed = FALSE
  /\ out = [i \in 0..(c.n - 1) |-> -1]
  /\ bits = [i \in 0..(c.n - 1) |-> TRUE]
  /\ count = c.n
  /\ parent = -1
  /\ pc = "idle" /\ idx = 0
  /\ ans = [i \in 0..(c.n - 1) |-> "new"]
  /\ pend = [i \in 0..(c.n - 1) |-> 0]
  /\ polls = [i \in 0..(c.n - 1) |-> 0]
  /\ handed = [i \in 0..(c.n - 1) |-> <<>>]
  /\ firedL = [i \in 0..(c.n - 1) |-> FALSE]
  /\ gen = -1 /\ wokenL = FALSE /\ started = FALSE /\ final = FALSE
  /\ nfire = 0 /\ nstale = 0 /\ nspur = 0 /\ ninfire = 0
  /\ seen = <<>> /\ conc = FALSE /\ quiesced = FALSE
  /\ m = MonStep(MonInit([e |-> "new", id |-> "l2", fam |-> c.kind, cont |-> c.variant, n |-> c.n,
                          feat |-> IF c.mode = "std" THEN "std" ELSE "alloc", stream |-> FALSE, sub |-> c.mode = "std",
                          never |-> c.never, x |-> -1, limit |-> 0, take |-> -1, nmaps |-> 0, term |-> "", stack |-> "[]"]),
                 [e |-> "built"])
  /\ hist = <<>>

Init == \E c \in Cfgs : InitFor(c)

NeverSet == {cfg.never[i] : i \in DOMAIN cfg.never}

---------------------------------------------------------------------------
(* The caller.  It polls first, after the latest waker it presented was invoked, and    *)
(* spuriously within a budget; it presents a fresh waker on every poll.                 *)
Poll ==
  /\ pc = "idle" /\ ~final
  /\ LET spurious == started /\ ~wokenL IN
       /\ spurious => nspur < cfg.maxSpur
       /\ nspur' = IF spurious THEN nspur + 1 ELSE nspur
  /\ gen' = gen + 1
  /\ wokenL' = FALSE /\ started' = TRUE /\ quiesced' = FALSE
  /\ pc' = "begin"
  /\ Emit(<<EvPoll(gen + 1)>>)
  /\ UNCHANGED <<cfg, st, cnt, consumed, out, bits, count, parent, idx, ans, pend, polls, handed, firedL,
                 final, nfire, nstale, ninfire, seen, conc>>

\* the caller presents the same waker as in its previous poll
PollReuse ==
  /\ pc = "idle" /\ ~final /\ started /\ Reuse
  /\ LET spurious == ~wokenL IN
       /\ spurious => nspur < cfg.maxSpur
       /\ nspur' = IF spurious THEN nspur + 1 ELSE nspur
  /\ wokenL' = FALSE /\ quiesced' = FALSE
  /\ pc' = "begin"
  /\ Emit(<<EvPoll(gen)>>)
  /\ UNCHANGED <<cfg, st, cnt, consumed, out, bits, count, parent, idx, ans, pend, polls, handed, firedL,
                 gen, started, final, nfire, nstale, ninfire, seen, conc>>

\* Ret: end of the poll
RetFields(r, ok, v, o) ==
  /\ pc' = "idle"
  /\ final' = (r = "ready")

(* poll(): assert; lock; set_waker; early-out of the array/Vec variant.                  *)
(*   join/array.rs:88-103  join/tuple.rs:190-203                                          *)
PollBegin ==
  /\ pc = "begin"
  /\ IF ~Arr /\ N = 0
       THEN \* the unit tuple: Join0 / TryJoin0 resolve at once and hold no state (join/tuple.rs:119-141)
            /\ RetFields("ready", TRUE, -1, <<>>)
            /\ Emit(<<EvRet("ready", TRUE, -1, <<>>)>>)
            /\ UNCHANGED <<idx, parent>>
       ELSE
       /\ parent' = gen                        \* readiness.set_waker(cx.waker())
       /\ IF Arr /\ cnt # 0 /\ ~AnyReady
            THEN /\ RetFields("pending", TRUE, -1, <<>>)
                 /\ Emit(<<EvRet("pending", TRUE, -1, <<>>)>>)
                 /\ UNCHANGED idx
            ELSE /\ pc' = "scan" /\ idx' = 0 /\ UNCHANGED final
                 /\ Emit(<<>>)
  /\ consumed' = (consumed \/ (~Arr /\ N = 0))
  /\ UNCHANGED <<cfg, st, cnt, out, bits, count, ans, pend, polls, handed, firedL,
                 gen, wokenL, started, nfire, nstale, nspur, ninfire, seen, conc, quiesced>>

OutSeq == [i \in 1..N |-> out[i - 1]]

(* one iteration of the scan loop up to (and including) handing the waker to the child   *)
ScanStep ==
  /\ pc = "scan"
  /\ IF idx >= N
       THEN \* loop finished
            IF Arr /\ cnt = 0
              THEN \* join/array.rs:134-148: consumed, all states None, take the output
                   /\ consumed' = TRUE /\ st' = [i \in Ch |-> "N"]
                   /\ RetFields("ready", TRUE, -1, OutSeq)
                   /\ Emit(<<EvRet("ready", TRUE, -1, OutSeq)>>)
                   /\ UNCHANGED <<bits, count, idx, polls, handed, firedL, seen, out, cnt>>
              ELSE /\ RetFields("pending", TRUE, -1, <<>>)
                   /\ Emit(<<EvRet("pending", TRUE, -1, <<>>)>>)
                   /\ UNCHANGED <<consumed, st, bits, count, idx, polls, handed, firedL, seen, out, cnt>>
       ELSE IF ~Arr /\ ~AnyReady
              THEN \* tuple: early-out inside the loop (join/tuple.rs:205-208)
                   /\ RetFields("pending", TRUE, -1, <<>>)
                   /\ Emit(<<EvRet("pending", TRUE, -1, <<>>)>>)
                   /\ UNCHANGED <<consumed, st, bits, count, idx, polls, handed, firedL, seen, out, cnt>>
              ELSE LET doPoll == IF Arr THEN st[idx] = "P" /\ ClearOld(idx)       \* state test first, short-circuit
                                        ELSE ClearOld(idx) /\ st[idx] # "R"       \* bit cleared first
                       cleared == IF Arr THEN st[idx] = "P" ELSE TRUE             \* is clear_ready evaluated at all
                       w == WakerOf(idx, gen)
                       s2 == Seen1(w)
                   IN /\ bits' = IF cleared THEN ClearBits(idx) ELSE bits
                      /\ count' = IF cleared THEN ClearCount(idx) ELSE count
                      /\ IF doPoll
                           THEN /\ pc' = "inchild"
                                /\ seen' = s2
                                /\ handed' = [handed EXCEPT ![idx] = Append(@, w)]
                                /\ polls' = [polls EXCEPT ![idx] = @ + 1]
                                /\ firedL' = [firedL EXCEPT ![idx] = FALSE]
                                /\ Emit(<<EvCpoll(idx, polls[idx], WidIn(s2, w), IF Std THEN -1 ELSE gen)>>)
                                /\ UNCHANGED idx
                           ELSE /\ idx' = idx + 1 /\ pc' = "scan"
                                /\ Emit(<<>>)
                                /\ UNCHANGED <<seen, handed, polls, firedL>>
                      /\ UNCHANGED <<consumed, st, final, out, cnt>>
  /\ UNCHANGED <<cfg, parent, ans, pend, gen, wokenL, started, nfire, nstale, nspur, ninfire, conc, quiesced>>

(* the child answers, and the combinator reacts (join/array.rs:116-131, try_join/array.rs:113-150,
   join/tuple.rs:28-44 + 226-237, try_join/tuple.rs) *)
ChildAnswer ==
  /\ pc = "inchild"
  /\ LET c == idx
         k == polls[c] - 1
         v == c * 1000 + k
     IN \/ \* Pending
           /\ \/ pend[c] < cfg.maxPend \/ c \in NeverSet
           /\ c \notin NeverSet => pend' = [pend EXCEPT ![c] = @ + 1]
           /\ c \in NeverSet => UNCHANGED pend
           /\ ans' = [ans EXCEPT ![c] = "pending"]
           /\ idx' = idx + 1 /\ pc' = "scan"
           /\ Emit(<<EvCret(c, k, "pending", TRUE, -1)>>)
           /\ UNCHANGED <<st, cnt, consumed, out, final>>
        \/ \* Ready(Ok) (join: Ready)
           /\ c \notin NeverSet
           /\ ans' = [ans EXCEPT ![c] = "done"]
           /\ out' = [out EXCEPT ![c] = v]
           /\ UNCHANGED pend
           /\ IF Arr
                THEN /\ st' = [st EXCEPT ![c] = "R"] /\ cnt' = cnt - 1
                     /\ idx' = idx + 1 /\ pc' = "scan"
                     /\ Emit(<<EvCret(c, k, "ready", TRUE, v), EvCdrop(c)>>)
                     /\ UNCHANGED <<consumed, final>>
                ELSE IF cnt + 1 = N
                       THEN \* tuple: completion is detected inside the loop
                            LET o == [i \in 1..N |-> IF i - 1 = c THEN v ELSE out[i - 1]] IN
                            /\ st' = [i \in Ch |-> "N"] /\ cnt' = cnt + 1
                            /\ consumed' = TRUE
                            /\ RetFields("ready", TRUE, -1, o)
                            /\ Emit(<<EvCret(c, k, "ready", TRUE, v), EvCdrop(c), EvRet("ready", TRUE, -1, o)>>)
                            /\ UNCHANGED idx
                       ELSE /\ st' = [st EXCEPT ![c] = "R"] /\ cnt' = cnt + 1
                            /\ idx' = idx + 1 /\ pc' = "scan"
                            /\ Emit(<<EvCret(c, k, "ready", TRUE, v), EvCdrop(c)>>)
                            /\ UNCHANGED <<consumed, final>>
        \/ \* Ready(Err): try_join short-circuits (try_join/array.rs:131-146)
           /\ Try /\ c \notin NeverSet
           /\ ans' = [ans EXCEPT ![c] = "done"]
           /\ UNCHANGED <<pend, out>>
           /\ st' = [st EXCEPT ![c] = "N"]
           /\ cnt' = IF Arr THEN cnt - 1 ELSE cnt + 1
           /\ consumed' = TRUE
           /\ RetFields("ready", FALSE, v, <<>>)
           /\ Emit(<<EvCret(c, k, "ready", FALSE, v), EvCdrop(c), EvRet("ready", FALSE, v, <<>>)>>)
           /\ UNCHANGED idx
  /\ UNCHANGED <<cfg, bits, count, parent, polls, handed, firedL, gen, wokenL, started,
                 nfire, nstale, nspur, ninfire, seen, conc, quiesced>>

(* a scripted panic of the child that is being polled: the poll unwinds, the caller drops  *)
(* the combinator in the state reached (PinnedDrop)                                         *)
DropEvents ==
  MapSeq(SelectSeq(IdxSeq, LAMBDA i : st[i] = "R"), LAMBDA i : EvVdrop(out[i]))
  \o MapSeq(SelectSeq(IdxSeq, LAMBDA i : st[i] = "P"), LAMBDA i : EvCdrop(i))

ChildPanic ==
  /\ pc = "inchild" /\ cfg.panic
  /\ LET c == idx
         k == polls[c] - 1
     IN Emit(<<EvCret(c, k, "panic", TRUE, -1), [e |-> "panic", at |-> "poll"], Ev("drop")>>
             \o DropEvents \o <<Ev("dropped")>>)
  /\ pc' = "dropped" /\ final' = TRUE
  /\ UNCHANGED <<cfg, st, cnt, consumed, out, bits, count, parent, idx, ans, pend, polls, handed, firedL,
                 gen, wokenL, started, nfire, nstale, nspur, ninfire, seen, conc, quiesced>>

---------------------------------------------------------------------------
(* InlineWaker::wake (utils/wakers/array/waker.rs:21-30) resp. the caller's own waker     *)
(* (pollall).  Enabled for every waker ever handed out, in every state of the combinator. *)
WakeEffect(c, k, inp) ==
  LET w == handed[c][k + 1]
      wid == WidIn(seen, w)
  IN /\ firedL' = [firedL EXCEPT ![c] = @ \/ (k = polls[c] - 1)]   \* the harness' bookkeeping of owed wake-ups
     /\ IF Std
          THEN LET old == bits[c] IN
               /\ bits' = [bits EXCEPT ![c] = TRUE]
               /\ count' = IF old THEN count ELSE count + 1
               /\ wokenL' = (wokenL \/ (~old /\ parent = gen))
               /\ Emit(<<EvFire(c, k, wid, inp)>> \o (IF old THEN <<>> ELSE <<EvPwake(parent)>>) \o <<EvFired(c, k)>>)
          ELSE LET g == w[2] IN
               /\ UNCHANGED <<bits, count>>
               /\ wokenL' = (wokenL \/ g = gen)
               /\ Emit(<<EvFire(c, k, wid, inp), EvPwake(g), EvFired(c, k)>>)

\* which wakers may be fired: the latest one of a child, or (within the stale budget) an older one
Fireable(c, k) == /\ c \in Ch /\ polls[c] > 0 /\ k \in 0..(polls[c] - 1)

Wake(c, k) ==
  /\ pc \in {"idle", "dropped", "begin"}
  /\ Fireable(c, k)
  /\ nfire < cfg.maxFire /\ nfire' = nfire + 1
  /\ IF k = polls[c] - 1 THEN UNCHANGED nstale ELSE (nstale < cfg.maxStale /\ nstale' = nstale + 1)
  /\ WakeEffect(c, k, FALSE)
  /\ conc' = (conc \/ pc = "begin")
  /\ quiesced' = FALSE
  /\ UNCHANGED <<cfg, st, cnt, consumed, out, parent, pc, idx, ans, pend, polls, handed,
                 gen, started, final, nspur, ninfire, seen>>

\* a wake-up from inside a child's poll (of the child itself or of a sibling)
InFire(c, k) ==
  /\ pc = "inchild"
  /\ Fireable(c, k)
  /\ ninfire < cfg.maxInFire /\ ninfire' = ninfire + 1
  /\ IF k = polls[c] - 1 THEN UNCHANGED nstale ELSE (nstale < cfg.maxStale /\ nstale' = nstale + 1)
  /\ WakeEffect(c, k, TRUE)
  /\ UNCHANGED <<cfg, st, cnt, consumed, out, parent, pc, idx, ans, pend, polls, handed,
                 gen, started, final, nfire, nspur, seen, conc, quiesced>>

\* a wake-up from another thread while the combinator holds no lock: between two scan steps.
\* Not replayable single-threaded (conc).
ThreadWake(c, k) ==
  /\ pc = "scan" /\ cfg.threads
  /\ Fireable(c, k) /\ k = polls[c] - 1
  /\ nfire < cfg.maxFire /\ nfire' = nfire + 1
  /\ WakeEffect(c, k, TRUE)
  /\ conc' = TRUE
  /\ UNCHANGED <<cfg, st, cnt, consumed, out, parent, pc, idx, ans, pend, polls, handed,
                 gen, started, final, nstale, nspur, ninfire, seen, quiesced>>

---------------------------------------------------------------------------
(* PinnedDrop (join/array.rs:155-177, join/tuple.rs:244-256): initialised outputs, then pending children *)
Drop ==
  /\ pc = "idle"
  /\ \/ cfg.drop \/ final \/ quiesced
  /\ pc' = "dropped"
  /\ Emit(<<Ev("drop")>> \o DropEvents \o <<Ev("dropped")>>)
  /\ UNCHANGED <<cfg, st, cnt, consumed, out, bits, count, parent, idx, ans, pend, polls, handed, firedL,
                 gen, wokenL, started, final, nfire, nstale, nspur, ninfire, seen, conc, quiesced>>

(* the wake-only executor has nothing left to do: no wake-up is owed by a child that will *)
(* still make progress, the latest waker has not been invoked                              *)
Owed == {c \in Ch : ans[c] = "pending" /\ ~firedL[c] /\ c \notin NeverSet}
Quiesce ==
  /\ IF TraceMode
       THEN \* the harness' `settle` reports quiescence whenever its loop ends: also after the final result / the drop
            /\ pc \in {"idle", "dropped"}
            /\ (pc = "dropped" \/ final \/ (started /\ ~wokenL /\ Owed = {}))
       ELSE /\ pc = "idle" /\ started /\ ~wokenL /\ ~quiesced /\ ~final
            /\ Owed = {}
  /\ quiesced' = TRUE
  /\ Emit(<<Ev("quiesce")>>)
  /\ UNCHANGED <<cfg, st, cnt, consumed, out, bits, count, parent, pc, idx, ans, pend, polls, handed, firedL,
                 gen, wokenL, started, final, nfire, nstale, nspur, ninfire, seen, conc>>

\* one more poll after the final result: `assert!(!consumed)` / `completed == LEN` panics, the caller drops the future
\* (C03: no child is polled)
Repoll ==
  /\ pc = "idle" /\ final /\ Repollable /\ N > 0
  /\ gen' = gen + 1 /\ pc' = "dropped"
  /\ Emit(<<[e |-> "repoll", g |-> gen + 1], [e |-> "panic", at |-> "repoll"], Ev("drop")>> \o DropEvents \o <<Ev("dropped")>>)
  /\ UNCHANGED <<cfg, st, cnt, consumed, out, bits, count, parent, idx, ans, pend, polls, handed, firedL,
                 wokenL, started, final, nfire, nstale, nspur, ninfire, seen, conc, quiesced>>

\* end of the run (the harness writes "end"); nothing happens afterwards
Finish ==          \* (the monitors close their ledgers at the harness' `end` marker, which is not part of the recorded history)
  /\ pc = "dropped" /\ pc' = "end"
  /\ m' = MonStep(m, [e |-> "end"]) /\ hist' = hist
  /\ UNCHANGED <<cfg, st, cnt, consumed, out, bits, count, parent, idx, ans, pend, polls, handed, firedL,
                 gen, wokenL, started, final, nfire, nstale, nspur, ninfire, seen, conc, quiesced>>

Next ==
  \/ Poll \/ PollReuse \/ PollBegin \/ ScanStep \/ ChildAnswer \/ ChildPanic \/ Drop \/ Quiesce \/ Finish \/ Repoll
  \/ \E c \in Ch : \E k \in 0..(polls[c] - 1) : Wake(c, k) \/ InFire(c, k) \/ ThreadWake(c, k)

\* delivery of an owed wake-up (used for fairness only): does not consume budget
OwedWake(c) ==
  /\ pc = "idle" /\ c \in Owed
  /\ WakeEffect(c, polls[c] - 1, FALSE)
  /\ quiesced' = FALSE
  /\ UNCHANGED <<cfg, st, cnt, consumed, out, parent, pc, idx, ans, pend, polls, handed,
                 gen, started, final, nfire, nstale, nspur, ninfire, seen, conc>>

NextLive == Next \/ \E c \in Ch : OwedWake(c)

Spec == Init /\ [][Next]_vars

\* fairness: the executor polls when woken, the combinator's poll runs to its end, children
\* answer, owed wake-ups are eventually delivered
LiveSpec == Init /\ [][NextLive]_vars
            /\ WF_vars(Poll /\ (~started \/ wokenL)) /\ WF_vars(PollBegin) /\ WF_vars(ScanStep) /\ WF_vars(ChildAnswer)
            /\ \A c \in 0..3 : WF_vars(OwedWake(c))

---------------------------------------------------------------------------
(* properties *)
MonitorsQuiet == m.bad = {}
ReadinessCount == CountOK
\* the "parent waker absent" branch of InlineWaker::wake is unreachable: wakers are only
\* handed out after set_waker
ParentPresent == (\E c \in Ch : polls[c] > 0) => parent >= 0
\* after a poll, the stored parent waker is the one of the most recent poll
ParentLatest == (pc = "idle" /\ started /\ ~(~Arr /\ N = 0)) => parent = gen
TypeOK == /\ pc \in {"idle", "begin", "scan", "inchild", "dropped", "end"}
          /\ \A i \in Ch : st[i] \in {"P", "R", "N"}
          /\ IF Arr THEN cnt = Cardinality({i \in Ch : st[i] = "P"}) \/ consumed
                    ELSE cnt <= N

\* liveness: without never-completing children and without cancellation the future resolves
Resolves == (cfg.never = <<>> /\ ~cfg.drop /\ ~cfg.panic) => <>(final)

=============================================================================
