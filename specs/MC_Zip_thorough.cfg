SPECIFICATION Spec
CONSTANT Cfgs <- CfgsThorough
INVARIANT MonitorsQuiet ReadinessCount ParentPresent ParentLatest RowRearm TypeOK
CHECK_DEADLOCK FALSE
