------------------------------- MODULE NestMG -------------------------------
(***************************************************************************)
(* A merge of groups, implementation-shaped:                               *)
(*     g0 = StreamGroup{s0, s1};  g1 = StreamGroup{s2};  [g0, g1].merge()  *)
(* an outer array merge (src/stream/merge/array.rs: readiness record,      *)
(* rotating Indexer, re-arm after an item) whose inputs are StreamGroups   *)
(* (src/stream/stream_group.rs: slab, key set, PollState per slot,         *)
(* ReadinessVec grown by the inserts, key_removal_queue, the               *)
(* done_count == stream_count rule).  What the other nest modules do not   *)
(* have:                                                                   *)
(*  - an inner *stream* combinator with dynamic membership: a member that  *)
(*    ends is removed inside the poll, the group itself ends (None) in the *)
(*    poll in which its last members end, and the outer merge then counts *)
(*    it as complete and never polls it again;                             *)
(*  - re-arm without wake at both levels: the group re-arms the member     *)
(*    that yielded, the merge re-arms the group that yielded;              *)
(*  - the group's spare capacity slots (g0: capacity 4 for two members)    *)
(*    stay marked ready for ever, so its any_ready() never short-circuits; *)
(*  - three readiness instances and the wake-up chains                     *)
(*    member -> group slot -> merge slot -> caller.                        *)
(* In the alloc configuration every level hands the caller's waker of the  *)
(* current poll straight through.                                          *)
(*                                                                         *)
(* fs: mst, mcomplete, moffset, morder, (the merge; its readiness is rd)   *)
(*     keys, gst, grd (per group), scan, done, cnt, queue, pending (the    *)
(*     group poll in progress), ig, lvl                                    *)
(***************************************************************************)
EXTENDS L2Env

Groups2 == {0, 1}
GKeys(g) == IF g = 0 THEN {0, 1} ELSE {0}
\* the leaf stream in slot k of group g, and back
Leaf(g, k) == IF g = 0 THEN k ELSE 2
GroupOf(c) == IF c < 2 THEN 0 ELSE 1
SlotOf(c) == IF c < 2 THEN c ELSE 0
Cap(g) == IF g = 0 THEN 4 ELSE 1

FsInit(c) ==
  [mst |-> [g \in Groups2 |-> "P"], mcomplete |-> 0, moffset |-> 0, morder |-> <<>>,
   keys |-> [g \in Groups2 |-> GKeys(g)],
   gst |-> [g \in Groups2 |-> [k \in GKeys(g) |-> "P"]],
   grd |-> [g \in Groups2 |-> [bits |-> [i \in 0..(Cap(g) - 1) |-> TRUE], count |-> Cap(g), parent |-> <<"none", -1>>]],
   scan |-> <<>>, done |-> 0, cnt |-> 0, queue |-> {}, ig |-> -1, lvl |-> "outer"]
InitFor(c) == InitEnv(c, 3, FsInit(c))
Init == \E c \in Cfgs : InitFor(c)

Rot2(off) == [k \in 1..2 |-> (k - 1 + off) % 2]

\* the waker the merge hands to its input g, and the one group g hands to the member in slot k
OuterWaker(g) == IF Sub THEN <<"s", g>> ELSE <<"p", rd.parent>>
InnerWaker(g, k) == IF Sub THEN <<"i", g, k>> ELSE fs.grd[g].parent

---------------------------------------------------------------------------
(* merge/array.rs poll_next: set_waker; Indexer::iter *)
PollBegin ==
  /\ pc = "begin"
  /\ rd' = RSetWaker(rd, gen)
  /\ fs' = [fs EXCEPT !.morder = Rot2(fs.moffset), !.moffset = (fs.moffset + 1) % 2, !.lvl = "outer"]
  /\ pc' = "scan" /\ NoRet /\ Emit(<<>>)
  /\ UNCHANGED <<cfg, cur, ans, alive, pend, nit, polls, handed, firedL, gen, wokenL, started,
                 nfire, nstale, nspur, ninfire, seen, conc, quiesced>>

\* what the merge does when its input g has ended
MergeInputEnded(f, g, evs) ==
  IF f.mcomplete + 1 = 2
    THEN /\ fs' = [f EXCEPT !.mcomplete = @ + 1, !.mst[g] = "N", !.lvl = "outer"]
         /\ Ret("none") /\ Emit(evs \o <<EvRet("none", TRUE, -1, <<>>, -1)>>)
    ELSE /\ fs' = [f EXCEPT !.mcomplete = @ + 1, !.mst[g] = "N", !.lvl = "outer", !.morder = Tail(@)]
         /\ pc' = "scan" /\ NoRet /\ Emit(evs)

\* one iteration of the merge's loop (any_ready early-out; clear_ready, then the state test); polling input g = the
\* start of StreamGroup::poll_next_inner: empty => None; set_waker; any_ready early-out; the scan over its key set
OuterStep ==
  IF fs.morder = <<>> \/ ~RAny(rd)
    THEN /\ Ret("pending") /\ Emit(<<EvRet("pending", TRUE, -1, <<>>, -1)>>)
         /\ UNCHANGED <<fs, rd, cur, handV>>
    ELSE LET g == Head(fs.morder)
             old == RClearOld(rd, g) IN
         /\ rd' = RClear(rd, g)
         /\ UNCHANGED <<cur, handV>>
         /\ IF ~old \/ fs.mst[g] = "N"
              THEN /\ fs' = [fs EXCEPT !.morder = Tail(@)]
                   /\ pc' = "scan" /\ NoRet /\ Emit(<<>>)
              ELSE IF fs.keys[g] = {}
                THEN \* (not reachable here: a group whose last member ended answered None in that very poll)
                     MergeInputEnded(fs, g, <<>>)
                ELSE LET grd1 == [fs.grd[g] EXCEPT !.parent = OuterWaker(g)] IN
                     IF ~RAny(grd1)
                       THEN \* the group has nothing ready: Pending; the merge goes on
                            /\ fs' = [fs EXCEPT !.grd[g] = grd1, !.morder = Tail(@)]
                            /\ pc' = "scan" /\ NoRet /\ Emit(<<>>)
                       ELSE /\ fs' = [fs EXCEPT !.grd[g] = grd1, !.lvl = "inner", !.ig = g, !.scan = SeqOfSet(fs.keys[g]),
                                               !.done = 0, !.cnt = Cardinality(fs.keys[g]), !.queue = {}]
                            /\ pc' = "scan" /\ NoRet /\ Emit(<<>>)

\* the end of the group's loop without an item: flush the removal queue; None iff every member it had ended in this poll
GroupLoopEnd(f, evs) ==
  LET g == f.ig
      f1 == [f EXCEPT !.keys[g] = @ \ f.queue, !.queue = {}, !.scan = <<>>] IN
  IF f.done = f.cnt
    THEN MergeInputEnded(f1, g, evs)
    ELSE \* the group answers Pending: the merge goes on
         /\ fs' = [f1 EXCEPT !.lvl = "outer", !.morder = Tail(@)]
         /\ pc' = "scan" /\ NoRet /\ Emit(evs)

InnerStep ==
  LET g == fs.ig IN
  IF fs.scan = <<>>
    THEN GroupLoopEnd(fs, <<>>) /\ UNCHANGED <<rd, cur, handV>>
    ELSE LET k == Head(fs.scan) IN
         IF fs.gst[g][k] = "P" /\ RClearOld(fs.grd[g], k)
           THEN /\ fs' = [fs EXCEPT !.grd[g] = RClear(@, k)]
                /\ HandOut(Leaf(g, k), InnerWaker(g, k))
                /\ Emit(<<CpollEv(Leaf(g, k), InnerWaker(g, k))>>) /\ NoRet /\ UNCHANGED rd
           ELSE /\ fs' = [fs EXCEPT !.scan = Tail(@)]
                /\ pc' = "scan" /\ NoRet /\ Emit(<<>>) /\ UNCHANGED <<rd, cur, handV>>

ScanStep ==
  /\ pc = "scan"
  /\ IF fs.lvl = "outer" THEN OuterStep ELSE InnerStep
  /\ UNCHANGED <<cfg, ans, alive, pend, nit, gen, wokenL, started, nfire, nstale, nspur, ninfire, conc, quiesced>>

ChildAnswer ==
  /\ pc = "inchild"
  /\ \E a \in Answers(cur, TRUE) :
       LET c == cur
           g == GroupOf(cur)
           k == SlotOf(cur)
           v == Val(c) IN
       /\ ChildSays(c, a)
       /\ CASE a.r = "pending" ->
                 /\ fs' = [fs EXCEPT !.scan = Tail(@)]
                 /\ pc' = "scan" /\ NoRet /\ UNCHANGED <<rd, alive>> /\ Emit(<<CretEv(c, a)>>)
            [] a.r = "some" ->
                 \* the group re-arms the member, flushes its removal queue and yields; the merge re-arms the group and yields
                 /\ fs' = [fs EXCEPT !.grd[g] = RSet(@, k), !.keys[g] = @ \ fs.queue, !.queue = {}, !.scan = <<>>, !.lvl = "outer"]
                 /\ rd' = RSet(rd, g) /\ UNCHANGED alive
                 /\ Ret("some") /\ Emit(<<CretEv(c, a), EvRet("some", TRUE, v, <<>>, -1)>>)
            [] a.r = "none" ->
                 \* the member is removed from the slab at once (dropped); its key waits in the removal queue
                 /\ alive' = [alive EXCEPT ![c] = FALSE]
                 /\ UNCHANGED rd
                 /\ LET f1 == [fs EXCEPT !.gst[g][k] = "N", !.done = @ + 1, !.queue = @ \cup {k}, !.scan = Tail(@)] IN
                    IF f1.scan = <<>>
                      THEN GroupLoopEnd(f1, <<CretEv(c, a), EvCdrop(c)>>)
                      ELSE /\ fs' = f1 /\ pc' = "scan" /\ NoRet /\ Emit(<<CretEv(c, a), EvCdrop(c)>>)
  /\ UNCHANGED <<cfg, cur, polls, handed, firedL, gen, wokenL, started, nfire, nstale, nspur, ninfire, seen, conc, quiesced>>

---------------------------------------------------------------------------
(* wake-ups: member -> its group's readiness -> the merge's slot -> the caller's latest waker *)
NWakeEffect(c, k, inp) ==
  LET w == handed[c][k + 1]
      wid == WidIn(seen, w) IN
  /\ firedL' = [firedL EXCEPT ![c] = @ \/ (k = polls[c] - 1)]
  /\ CASE w[1] = "i" ->
            LET g == w[2]
                slot == w[3] IN
            IF fs.grd[g].bits[slot]
              THEN /\ UNCHANGED <<fs, rd, wokenL>>
                   /\ Emit(<<EvFire(c, k, wid, inp), EvFired(c, k)>>)
              ELSE \* the group notifies the waker it stored: the merge's sub-waker of its slot
                   LET ms == fs.grd[g].parent[2]
                       old == rd.bits[ms] IN
                   /\ fs' = [fs EXCEPT !.grd[g] = RSet(@, slot)]
                   /\ rd' = RSet(rd, ms)
                   /\ wokenL' = (wokenL \/ (~old /\ rd.parent = gen))
                   /\ Emit(<<EvFire(c, k, wid, inp)>> \o (IF ~old THEN <<EvPwake(rd.parent)>> ELSE <<>>) \o <<EvFired(c, k)>>)
       [] w[1] = "p" ->
            /\ UNCHANGED <<fs, rd>>
            /\ wokenL' = (wokenL \/ w[2] = gen)
            /\ Emit(<<EvFire(c, k, wid, inp), EvPwake(w[2]), EvFired(c, k)>>)

NWake(c, k) ==
  /\ pc \in {"idle", "dropped", "begin", "repolled"}
  /\ Fireable(c, k)
  /\ nfire < cfg.maxFire /\ nfire' = nfire + 1
  /\ StaleBudget(c, k)
  /\ NWakeEffect(c, k, FALSE)
  /\ conc' = (conc \/ pc = "begin")
  /\ quiesced' = FALSE
  /\ UNCHANGED <<cfg, pc, cur, ans, alive, pend, nit, polls, handed, gen, started, final, needPoll, nspur, ninfire, seen>>

NInFire(c, k) ==
  /\ pc = "inchild"
  /\ Fireable(c, k)
  /\ ninfire < cfg.maxInFire /\ ninfire' = ninfire + 1
  /\ StaleBudget(c, k)
  /\ NWakeEffect(c, k, TRUE)
  /\ UNCHANGED <<cfg, pc, cur, ans, alive, pend, nit, polls, handed, gen, started, final, needPoll, nfire, nspur, seen, conc, quiesced>>

NThreadWake(c, k) ==
  /\ pc = "scan" /\ cfg.threads
  /\ Fireable(c, k) /\ k = polls[c] - 1
  /\ nfire < cfg.maxFire /\ nfire' = nfire + 1
  /\ NWakeEffect(c, k, TRUE)
  /\ conc' = TRUE
  /\ UNCHANGED <<cfg, pc, cur, ans, alive, pend, nit, polls, handed, gen, started, final, needPoll, nstale, nspur, ninfire, seen, quiesced>>

NWakes == \E c \in Ch : \E k \in 0..(polls[c] - 1) : NWake(c, k) \/ NInFire(c, k) \/ NThreadWake(c, k)

NOwedWake(c) ==
  /\ pc = "idle" /\ c \in Owed
  /\ NWakeEffect(c, polls[c] - 1, FALSE)
  /\ quiesced' = FALSE
  /\ UNCHANGED <<cfg, pc, cur, ans, alive, pend, nit, polls, handed, gen, started, final, needPoll,
                 nfire, nstale, nspur, ninfire, seen, conc>>

---------------------------------------------------------------------------
(* Drop of the merge: its array of groups in order; each group drops the members still in its slab, in slot order *)
DropEvents ==
  MapSeq(SelectSeq(<<0, 1, 2>>, LAMBDA c : alive[c]), LAMBDA c : EvCdrop(c))
Drop == DropWith(DropEvents)
ChildPanic == PanicWith(DropEvents)
\* one more poll after None: every state of the merge is None, nothing is polled, the answer is Pending
Repoll == RepollAnswers("pending")

Next == Poll \/ PollReuse \/ NWakes \/ Quiesce \/ Finish \/ PollBegin \/ ScanStep \/ ChildAnswer \/ ChildPanic \/ Drop \/ Repoll
NextLive == Next \/ \E c \in Ch : NOwedWake(c)
Spec == Init /\ [][Next]_vars
LiveSpec == Init /\ [][NextLive]_vars
            /\ WF_vars(Poll /\ (~started \/ wokenL \/ needPoll)) /\ WF_vars(PollBegin) /\ WF_vars(ScanStep) /\ WF_vars(ChildAnswer)
            /\ \A c \in 0..2 : WF_vars(NOwedWake(c))

---------------------------------------------------------------------------
TypeOK == /\ EnvTypeOK
          /\ fs.mcomplete = Cardinality({g \in Groups2 : fs.mst[g] = "N"})
          /\ (pc \notin {"dropped", "end"}) => \A g \in Groups2 : \A k \in GKeys(g) : (fs.gst[g][k] = "P") <=> alive[Leaf(g, k)]
          \* between polls the removal queue is empty and the key set is exactly the live members
          /\ (pc = "idle") => /\ fs.queue = {}
                              /\ \A g \in Groups2 : fs.keys[g] = {k \in GKeys(g) : fs.gst[g][k] = "P"}
          \* a group that has lost all its members has been reported as ended to the merge
          /\ (pc = "idle") => \A g \in Groups2 : (fs.keys[g] = {}) <=> (fs.mst[g] = "N")
Counts == Sub => /\ CountOK
                 /\ \A g \in Groups2 : fs.grd[g].count = Cardinality({i \in DOMAIN fs.grd[g].bits : fs.grd[g].bits[i]})
\* the chains of registrations: while parked, a live member marked ready has its group marked in the merge
Chained == (Sub /\ pc = "idle" /\ started /\ ~needPoll)
             => \A g \in Groups2 : fs.mst[g] = "P" => ((\E k \in fs.keys[g] : fs.grd[g].bits[k]) => rd.bits[g])
\* a member that yielded is polled again by the next poll although nobody woke it (both levels)
Rearmed == (Sub /\ pc = "idle") => \A c \in 0..2 : ans[c] = "some" => (fs.grd[GroupOf(c)].bits[SlotOf(c)] /\ rd.bits[GroupOf(c)])
Ends == (cfg.never = <<>> /\ ~cfg.drop /\ ~cfg.panic) => <>(final)
=============================================================================
