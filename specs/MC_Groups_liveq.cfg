SPECIFICATION LiveSpec
CONSTANT Cfgs <- CfgsLiveQ
PROPERTY Drains
CHECK_DEADLOCK FALSE
