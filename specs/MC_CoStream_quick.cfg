SPECIFICATION Spec
CONSTANT Cfgs <- CfgsQuick
INVARIANT MonitorsQuiet ReadinessCount WithinLimit TypeOK
CHECK_DEADLOCK FALSE
