----------------------------- MODULE NestStream -----------------------------
(***************************************************************************)
(* One level of nesting of streams, implementation-shaped:                 *)
(*     ( [s0, s1].merge() , s2 ).merge()                                   *)
(* an outer tuple merge (src/stream/merge/tuple.rs) whose first input is   *)
(* an inner array merge (src/stream/merge/array.rs) and whose second input *)
(* is the leaf s2.  Two readiness instances (rd: outer, 2 slots; fs.ird:   *)
(* inner, 2 slots) and two rotating Indexers.                              *)
(*                                                                         *)
(* What is specific to nested *streams* (and absent from Nest.tla):        *)
(*  - an inner merge that yields an item re-arms its own bit for that      *)
(*    input and the outer merge re-arms its bit for the inner merge, both  *)
(*    without waking anybody: the consumer is expected to poll again;      *)
(*  - the inner merge is polled many times over its life, each time        *)
(*    storing the outer sub-waker again and rotating its own start index;  *)
(*  - an inner merge that has ended stays in place (merge never drops an   *)
(*    input before it is dropped itself) and is skipped by the outer       *)
(*    state table;                                                         *)
(*  - in the std configuration a wake-up of a leaf of the inner merge sets *)
(*    the inner bit and, if it was clear, invokes the outer sub-waker of   *)
(*    slot 0, which sets the outer bit and, if that was clear, wakes the   *)
(*    caller's latest waker; in alloc / no_std every level hands the       *)
(*    caller's waker of the current poll straight through.                 *)
(*                                                                         *)
(* fs: ist, icomplete, ioffset, iorder, ird (inner merge)                  *)
(*     ost, ocomplete, ooffset, oorder (outer merge), lvl                  *)
(***************************************************************************)
EXTENDS L2Env

InnerKids == {0, 1}
FsInit(c) ==
  [ist |-> [i \in InnerKids |-> "P"], icomplete |-> 0, ioffset |-> 0, iorder |-> <<>>,
   ird |-> [bits |-> [i \in InnerKids |-> TRUE], count |-> 2, parent |-> <<"none", -1>>],
   ost |-> [i \in 0..1 |-> "P"], ocomplete |-> 0, ooffset |-> 0, oorder |-> <<>>, lvl |-> "outer"]
InitFor(c) == InitEnv(c, 3, FsInit(c))
Init == \E c \in Cfgs : InitFor(c)

Rot2(off) == [k \in 1..2 |-> (k - 1 + off) % 2]

\* inner readiness (same operators as L2Env's, on fs.ird)
IAny(r) == IF Sub THEN r.count > 0 ELSE TRUE
IClearOld(r, i) == IF Sub THEN r.bits[i] ELSE TRUE
IClear(r, i) == IF Sub /\ r.bits[i] THEN [r EXCEPT !.bits[i] = FALSE, !.count = @ - 1] ELSE r
ISet(r, i) == IF Sub /\ ~r.bits[i] THEN [r EXCEPT !.bits[i] = TRUE, !.count = @ + 1] ELSE r

\* the waker the outer merge hands to its slot s, and the one the inner merge hands to its leaf i
OuterWaker(s) == IF Sub THEN <<"s", s>> ELSE <<"p", rd.parent>>
InnerWaker(i) == IF Sub THEN <<"i", i>> ELSE fs.ird.parent

---------------------------------------------------------------------------
(* outer tuple merge: poll_next: set_waker; Indexer::iter *)
PollBegin ==
  /\ pc = "begin"
  /\ rd' = RSetWaker(rd, gen)
  /\ fs' = [fs EXCEPT !.oorder = Rot2(fs.ooffset), !.ooffset = (fs.ooffset + 1) % 2, !.lvl = "outer"]
  /\ pc' = "scan" /\ NoRet /\ Emit(<<>>)
  /\ UNCHANGED <<cfg, cur, ans, alive, pend, nit, polls, handed, firedL, gen, wokenL, started,
                 nfire, nstale, nspur, ninfire, seen, conc, quiesced>>

\* one iteration of the outer loop (any_ready early-out; clear_ready, then the state test)
OuterStep ==
  IF fs.oorder = <<>> \/ ~RAny(rd)
    THEN /\ Ret("pending") /\ Emit(<<EvRet("pending", TRUE, -1, <<>>, -1)>>)
         /\ UNCHANGED <<fs, rd, cur, handV>>
    ELSE LET s == Head(fs.oorder)
             old == RClearOld(rd, s) IN
         /\ rd' = RClear(rd, s)
         /\ IF ~old \/ fs.ost[s] = "N"
              THEN /\ fs' = [fs EXCEPT !.oorder = Tail(@)]
                   /\ pc' = "scan" /\ NoRet /\ Emit(<<>>) /\ UNCHANGED <<cur, handV>>
              ELSE IF s = 0
                THEN \* poll the inner merge with the outer sub-waker of slot 0: set_waker; Indexer::iter
                     /\ fs' = [fs EXCEPT !.ird.parent = OuterWaker(0), !.iorder = Rot2(fs.ioffset),
                                         !.ioffset = (fs.ioffset + 1) % 2, !.lvl = "inner"]
                     /\ pc' = "scan" /\ NoRet /\ Emit(<<>>) /\ UNCHANGED <<cur, handV>>
                ELSE \* the leaf s2
                     /\ HandOut(2, OuterWaker(1))
                     /\ Emit(<<CpollEv(2, OuterWaker(1))>>) /\ NoRet /\ UNCHANGED fs

\* one iteration of the inner loop; when it ends without an item the inner merge answers Pending and the outer loop goes on
InnerStep ==
  IF fs.iorder = <<>> \/ ~IAny(fs.ird)
    THEN /\ fs' = [fs EXCEPT !.lvl = "outer", !.oorder = Tail(@)]
         /\ pc' = "scan" /\ NoRet /\ Emit(<<>>) /\ UNCHANGED <<rd, cur, handV>>
    ELSE LET i == Head(fs.iorder)
             old == IClearOld(fs.ird, i) IN
         IF ~old \/ fs.ist[i] = "N"
           THEN /\ fs' = [fs EXCEPT !.ird = IClear(@, i), !.iorder = Tail(@)]
                /\ pc' = "scan" /\ NoRet /\ Emit(<<>>) /\ UNCHANGED <<rd, cur, handV>>
           ELSE /\ fs' = [fs EXCEPT !.ird = IClear(@, i)]
                /\ HandOut(i, InnerWaker(i))
                /\ Emit(<<CpollEv(i, InnerWaker(i))>>) /\ NoRet /\ UNCHANGED rd

ScanStep ==
  /\ pc = "scan"
  /\ IF fs.lvl = "outer" THEN OuterStep ELSE InnerStep
  /\ UNCHANGED <<cfg, ans, alive, pend, nit, gen, wokenL, started, nfire, nstale, nspur, ninfire, conc, quiesced>>

\* what the outer merge does when input `s` (0: the inner merge, 1: the leaf) has ended
OuterInputEnded(f, s, evs) ==
  IF f.ocomplete + 1 = 2
    THEN /\ fs' = [f EXCEPT !.ocomplete = @ + 1, !.ost[s] = "N", !.lvl = "outer"]
         /\ Ret("none") /\ Emit(evs \o <<EvRet("none", TRUE, -1, <<>>, -1)>>)
    ELSE /\ fs' = [f EXCEPT !.ocomplete = @ + 1, !.ost[s] = "N", !.lvl = "outer", !.oorder = Tail(@)]
         /\ pc' = "scan" /\ NoRet /\ Emit(evs)

ChildAnswer ==
  /\ pc = "inchild"
  /\ \E a \in Answers(cur, TRUE) :
       LET c == cur
           v == Val(c) IN
       /\ ChildSays(c, a)
       /\ IF c = 2
            THEN CASE a.r = "pending" ->
                        /\ fs' = [fs EXCEPT !.oorder = Tail(@)]
                        /\ pc' = "scan" /\ NoRet /\ UNCHANGED rd /\ Emit(<<CretEv(c, a)>>)
                   [] a.r = "some" ->
                        /\ rd' = RSet(rd, 1) /\ UNCHANGED fs
                        /\ Ret("some") /\ Emit(<<CretEv(c, a), EvRet("some", TRUE, v, <<>>, -1)>>)
                   [] a.r = "none" ->
                        /\ UNCHANGED rd /\ OuterInputEnded(fs, 1, <<CretEv(c, a)>>)
            ELSE CASE a.r = "pending" ->
                        /\ fs' = [fs EXCEPT !.iorder = Tail(@)]
                        /\ pc' = "scan" /\ NoRet /\ UNCHANGED rd /\ Emit(<<CretEv(c, a)>>)
                   [] a.r = "some" ->
                        \* the inner merge re-arms its input and yields; the outer merge re-arms the inner merge and yields
                        /\ fs' = [fs EXCEPT !.ird = ISet(@, c), !.lvl = "outer"]
                        /\ rd' = RSet(rd, 0)
                        /\ Ret("some") /\ Emit(<<CretEv(c, a), EvRet("some", TRUE, v, <<>>, -1)>>)
                   [] a.r = "none" ->
                        /\ UNCHANGED rd
                        /\ IF fs.icomplete + 1 = 2
                             THEN \* the inner merge ends: the outer merge marks input 0 as ended
                                  OuterInputEnded([fs EXCEPT !.icomplete = @ + 1, !.ist[c] = "N"], 0, <<CretEv(c, a)>>)
                             ELSE /\ fs' = [fs EXCEPT !.icomplete = @ + 1, !.ist[c] = "N", !.iorder = Tail(@)]
                                  /\ pc' = "scan" /\ NoRet /\ Emit(<<CretEv(c, a)>>)
  /\ UNCHANGED <<cfg, cur, alive, polls, handed, firedL, gen, wokenL, started, nfire, nstale, nspur, ninfire, seen, conc, quiesced>>

---------------------------------------------------------------------------
(* wake-ups: an inner leaf's waker chains through the inner readiness into the outer one *)
NWakeEffect(c, k, inp) ==
  LET w == handed[c][k + 1]
      wid == WidIn(seen, w)
      outerWake(slot) == <<RSet(rd, slot), ~rd.bits[slot]>> IN      \* <<new rd, woke the caller?>>
  /\ firedL' = [firedL EXCEPT ![c] = @ \/ (k = polls[c] - 1)]
  /\ CASE w[1] = "i" ->
            LET iold == fs.ird.bits[w[2]] IN
            IF iold
              THEN /\ UNCHANGED <<fs, rd, wokenL>>
                   /\ Emit(<<EvFire(c, k, wid, inp), EvFired(c, k)>>)
              ELSE LET ow == outerWake(0) IN
                   /\ fs' = [fs EXCEPT !.ird = ISet(@, w[2])]
                   /\ rd' = ow[1]
                   /\ wokenL' = (wokenL \/ (ow[2] /\ rd.parent = gen))
                   /\ Emit(<<EvFire(c, k, wid, inp)>> \o (IF ow[2] THEN <<EvPwake(rd.parent)>> ELSE <<>>) \o <<EvFired(c, k)>>)
       [] w[1] = "s" ->
            LET ow == outerWake(w[2]) IN
            /\ rd' = ow[1] /\ UNCHANGED fs
            /\ wokenL' = (wokenL \/ (ow[2] /\ rd.parent = gen))
            /\ Emit(<<EvFire(c, k, wid, inp)>> \o (IF ow[2] THEN <<EvPwake(rd.parent)>> ELSE <<>>) \o <<EvFired(c, k)>>)
       [] w[1] = "p" ->
            /\ UNCHANGED <<fs, rd>>
            /\ wokenL' = (wokenL \/ w[2] = gen)
            /\ Emit(<<EvFire(c, k, wid, inp), EvPwake(w[2]), EvFired(c, k)>>)

NWake(c, k) ==
  /\ pc \in {"idle", "dropped", "begin", "repolled"}
  /\ Fireable(c, k)
  /\ nfire < cfg.maxFire /\ nfire' = nfire + 1
  /\ StaleBudget(c, k)
  /\ NWakeEffect(c, k, FALSE)
  /\ conc' = (conc \/ pc = "begin")
  /\ quiesced' = FALSE
  /\ UNCHANGED <<cfg, pc, cur, ans, alive, pend, nit, polls, handed, gen, started, final, needPoll, nspur, ninfire, seen>>

NInFire(c, k) ==
  /\ pc = "inchild"
  /\ Fireable(c, k)
  /\ ninfire < cfg.maxInFire /\ ninfire' = ninfire + 1
  /\ StaleBudget(c, k)
  /\ NWakeEffect(c, k, TRUE)
  /\ UNCHANGED <<cfg, pc, cur, ans, alive, pend, nit, polls, handed, gen, started, final, needPoll, nfire, nspur, seen, conc, quiesced>>

NThreadWake(c, k) ==
  /\ pc = "scan" /\ cfg.threads
  /\ Fireable(c, k) /\ k = polls[c] - 1
  /\ nfire < cfg.maxFire /\ nfire' = nfire + 1
  /\ NWakeEffect(c, k, TRUE)
  /\ conc' = TRUE
  /\ UNCHANGED <<cfg, pc, cur, ans, alive, pend, nit, polls, handed, gen, started, final, needPoll, nstale, nspur, ninfire, seen, quiesced>>

NWakes == \E c \in Ch : \E k \in 0..(polls[c] - 1) : NWake(c, k) \/ NInFire(c, k) \/ NThreadWake(c, k)

NOwedWake(c) ==
  /\ pc = "idle" /\ c \in Owed
  /\ NWakeEffect(c, polls[c] - 1, FALSE)
  /\ quiesced' = FALSE
  /\ UNCHANGED <<cfg, pc, cur, ans, alive, pend, nit, polls, handed, gen, started, final, needPoll,
                 nfire, nstale, nspur, ninfire, seen, conc>>

---------------------------------------------------------------------------
\* the outer merge's fields are dropped in declaration order: the inner merge (its inputs in index order), then the leaf
DropEvents == <<EvCdrop(0), EvCdrop(1), EvCdrop(2)>>
Drop == DropWith(DropEvents)
ChildPanic == PanicWith(DropEvents)
\* one more poll after None: every state is None, nothing is polled, the answer is Pending
Repoll == RepollAnswers("pending")

Next == Poll \/ PollReuse \/ NWakes \/ Quiesce \/ Finish \/ PollBegin \/ ScanStep \/ ChildAnswer \/ ChildPanic \/ Drop \/ Repoll
NextLive == Next \/ \E c \in Ch : NOwedWake(c)
Spec == Init /\ [][Next]_vars
LiveSpec == Init /\ [][NextLive]_vars
            /\ WF_vars(Poll /\ (~started \/ wokenL \/ needPoll)) /\ WF_vars(PollBegin) /\ WF_vars(ScanStep) /\ WF_vars(ChildAnswer)
            /\ \A c \in 0..2 : WF_vars(NOwedWake(c))

---------------------------------------------------------------------------
TypeOK == /\ EnvTypeOK
          /\ fs.icomplete = Cardinality({i \in InnerKids : fs.ist[i] = "N"})
          /\ fs.ocomplete = Cardinality({i \in 0..1 : fs.ost[i] = "N"})
          /\ (fs.ost[0] = "N") <=> (fs.icomplete = 2)
InnerCount == Sub => fs.ird.count = Cardinality({i \in InnerKids : fs.ird.bits[i]})
\* the chain of registrations: while parked, an inner input that is marked ready keeps the inner merge's own slot marked
Chained == (Sub /\ pc = "idle" /\ started /\ ~needPoll /\ fs.ost[0] = "P")
             => ((\E i \in InnerKids : fs.ird.bits[i] /\ fs.ist[i] = "P") => rd.bits[0])
\* an input that yielded is polled again by the next poll although nobody woke it (both levels)
Rearmed == (Sub /\ pc = "idle") => /\ \A c \in InnerKids : ans[c] = "some" => (fs.ird.bits[c] /\ rd.bits[0])
                                   /\ ans[2] = "some" => rd.bits[1]
Ends == (cfg.never = <<>> /\ ~cfg.drop /\ ~cfg.panic) => <>(final)
=============================================================================
