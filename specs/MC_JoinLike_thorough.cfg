SPECIFICATION Spec
CONSTANT Cfgs <- CfgsThorough
INVARIANT MonitorsQuiet ReadinessCount ParentPresent ParentLatest TypeOK
CHECK_DEADLOCK FALSE
