-------------------------------- MODULE Nest --------------------------------
(***************************************************************************)
(* One level of nesting, implementation-shaped:                            *)
(*     ( [c0, c1].join() , c2 ).join()                                     *)
(* an outer tuple join (src/future/join/tuple.rs) whose first child is an  *)
(* inner array join (src/future/join/array.rs) and whose second child is   *)
(* the leaf c2.  Two readiness instances: the outer one (rd, 2 slots) and  *)
(* the inner one (fs.ird, 2 slots).  In the std configuration the inner    *)
(* join is polled with the outer join's sub-waker for slot 0, stores it as *)
(* its parent waker, and hands its own sub-wakers to c0 / c1: a wake-up of *)
(* c0 sets the inner bit and, if it was clear, invokes the outer sub-waker,*)
(* which sets the outer bit 0 and, if that was clear, wakes the caller's   *)
(* latest waker.  In the alloc / no_std configuration every level hands    *)
(* the caller's waker of the current poll straight through.                *)
(*                                                                         *)
(* The assume/guarantee reading of C01: the obligations the monitor puts   *)
(* on a combinator as seen from its leaves are exactly what the outer      *)
(* combinator needs from a child.  TLC checks the composition.             *)
(*                                                                         *)
(* fs: ist, ipend, iout, iconsumed, ird (inner join), iidx (inner loop),   *)
(*     ost, ocompleted, oout, oidx (outer join), lvl ("outer" | "inner")   *)
(***************************************************************************)
EXTENDS L2Env

InnerKids == {0, 1}
FsInit(c) ==
  [ist |-> [i \in InnerKids |-> "P"], ipend |-> 2, iout |-> [i \in InnerKids |-> -1], iconsumed |-> FALSE,
   ird |-> [bits |-> [i \in InnerKids |-> TRUE], count |-> 2, parent |-> <<"none", -1>>], iidx |-> 0,
   ost |-> [i \in 0..1 |-> "P"], ocompleted |-> 0, oout |-> <<>>, oidx |-> 0, lvl |-> "outer", idropped |-> FALSE]
InitFor(c) == InitEnv(c, 3, FsInit(c))
Init == \E c \in Cfgs : InitFor(c)

\* inner readiness (same operators as L2Env's, on fs.ird)
IAny(r) == IF Sub THEN r.count > 0 ELSE TRUE
IClearOld(r, i) == IF Sub THEN r.bits[i] ELSE TRUE
IClear(r, i) == IF Sub /\ r.bits[i] THEN [r EXCEPT !.bits[i] = FALSE, !.count = @ - 1] ELSE r
ISet(r, i) == IF Sub /\ ~r.bits[i] THEN [r EXCEPT !.bits[i] = TRUE, !.count = @ + 1] ELSE r

\* the waker the outer join hands to its slot s, and the one the inner join hands to its leaf i
OuterWaker(s) == IF Sub THEN <<"s", s>> ELSE <<"p", rd.parent>>
InnerWaker(i) == IF Sub THEN <<"i", i>> ELSE fs.ird.parent

---------------------------------------------------------------------------
(* outer tuple join: poll(): set_waker; loop *)
PollBegin ==
  /\ pc = "begin" /\ fs.ocompleted < 2
  /\ rd' = RSetWaker(rd, gen)
  /\ fs' = [fs EXCEPT !.oidx = 0, !.lvl = "outer"]
  /\ pc' = "scan" /\ NoRet /\ Emit(<<>>)
  /\ UNCHANGED <<cfg, cur, ans, alive, pend, nit, polls, handed, firedL, gen, wokenL, started,
                 nfire, nstale, nspur, ninfire, seen, conc, quiesced>>

OuterOut(f, v2) == <<f.iout[0], f.iout[1], v2>>

\* the outer loop at slot fs.oidx (join/tuple.rs: early-out inside the loop; bit cleared before the state test)
OuterStep ==
  IF fs.oidx >= 2 \/ ~RAny(rd)
    THEN /\ Ret("pending") /\ Emit(<<EvRet("pending", TRUE, -1, <<>>, -1)>>)
         /\ UNCHANGED <<fs, rd, cur, handV>>
    ELSE LET s == fs.oidx
             old == RClearOld(rd, s) IN
         /\ rd' = RClear(rd, s)
         /\ IF ~old \/ fs.ost[s] = "R"
              THEN /\ fs' = [fs EXCEPT !.oidx = @ + 1]
                   /\ pc' = "scan" /\ NoRet /\ Emit(<<>>) /\ UNCHANGED <<cur, handV>>
              ELSE IF s = 0
                THEN \* poll the inner join with the outer sub-waker of slot 0 (join/array.rs poll): set_waker, early-out
                     LET w == OuterWaker(0)
                         ird1 == [fs.ird EXCEPT !.parent = w] IN
                     IF fs.ipend # 0 /\ ~IAny(ird1)
                       THEN \* inner: nothing is ready: Pending; the outer loop goes on
                            /\ fs' = [fs EXCEPT !.ird = ird1, !.oidx = @ + 1]
                            /\ pc' = "scan" /\ NoRet /\ Emit(<<>>) /\ UNCHANGED <<cur, handV>>
                       ELSE /\ fs' = [fs EXCEPT !.ird = ird1, !.lvl = "inner", !.iidx = 0]
                            /\ pc' = "scan" /\ NoRet /\ Emit(<<>>) /\ UNCHANGED <<cur, handV>>
                ELSE \* the leaf c2
                     /\ HandOut(2, OuterWaker(1))
                     /\ Emit(<<CpollEv(2, OuterWaker(1))>>) /\ NoRet /\ UNCHANGED fs

\* the inner loop (join/array.rs: state test first, then clear_ready)
InnerStep ==
  IF fs.iidx >= 2
    THEN \* after the loop: all done => take the outputs (Ready), else Pending; back in the outer loop
         IF fs.ipend = 0
           THEN \* inner Ready: outer stores the output, marks the slot Ready, drops the inner future
                /\ fs' = [fs EXCEPT !.iconsumed = TRUE, !.ist = [i \in InnerKids |-> "N"], !.lvl = "outer",
                                    !.ost = IF fs.ocompleted + 1 = 2 THEN [i \in 0..1 |-> "N"] ELSE [@ EXCEPT ![0] = "R"],
                                    !.ocompleted = @ + 1, !.idropped = TRUE, !.oidx = @ + 1]
                /\ UNCHANGED <<rd, cur, handV>>
                /\ IF fs.ocompleted + 1 = 2
                     THEN /\ Ret("ready") /\ Emit(<<EvRet("ready", TRUE, -1, OuterOut(fs, fs.oout[2]), -1)>>)
                     ELSE /\ pc' = "scan" /\ NoRet /\ Emit(<<>>)
           ELSE /\ fs' = [fs EXCEPT !.lvl = "outer", !.oidx = @ + 1]
                /\ pc' = "scan" /\ NoRet /\ Emit(<<>>) /\ UNCHANGED <<rd, cur, handV>>
    ELSE LET i == fs.iidx IN
         IF fs.ist[i] = "P" /\ IClearOld(fs.ird, i)
           THEN /\ fs' = [fs EXCEPT !.ird = IClear(@, i)]
                /\ HandOut(i, InnerWaker(i))
                /\ Emit(<<CpollEv(i, InnerWaker(i))>>) /\ NoRet /\ UNCHANGED rd
           ELSE /\ fs' = [fs EXCEPT !.iidx = @ + 1]
                /\ pc' = "scan" /\ NoRet /\ Emit(<<>>) /\ UNCHANGED <<rd, cur, handV>>

ScanStep ==
  /\ pc = "scan"
  /\ IF fs.lvl = "outer" THEN OuterStep ELSE InnerStep
  /\ UNCHANGED <<cfg, ans, alive, pend, nit, gen, wokenL, started, nfire, nstale, nspur, ninfire, conc, quiesced>>

ChildAnswer ==
  /\ pc = "inchild"
  /\ \E a \in Answers(cur, FALSE) :
       LET c == cur
           v == Val(c) IN
       /\ ChildSays(c, a)
       /\ IF c = 2
            THEN IF a.r = "pending"
                   THEN /\ fs' = [fs EXCEPT !.oidx = @ + 1]
                        /\ pc' = "scan" /\ NoRet /\ UNCHANGED alive /\ Emit(<<CretEv(c, a)>>)
                   ELSE \* outer: store the output, drop the child; all done => Ready from inside the loop
                        /\ alive' = [alive EXCEPT ![2] = FALSE]
                        /\ IF fs.ocompleted + 1 = 2
                             THEN /\ fs' = [fs EXCEPT !.ost = [i \in 0..1 |-> "N"], !.ocompleted = @ + 1]
                                  /\ Ret("ready")
                                  /\ Emit(<<CretEv(c, a), EvCdrop(2), EvRet("ready", TRUE, -1, OuterOut(fs, v), -1)>>)
                             ELSE /\ fs' = [fs EXCEPT !.ost[1] = "R", !.ocompleted = @ + 1, !.oout = <<-1, v>>, !.oidx = @ + 1]
                                  /\ pc' = "scan" /\ NoRet
                                  /\ Emit(<<CretEv(c, a), EvCdrop(2)>>)
            ELSE \* a leaf of the inner join
                 IF a.r = "pending"
                   THEN /\ fs' = [fs EXCEPT !.iidx = @ + 1]
                        /\ pc' = "scan" /\ NoRet /\ UNCHANGED alive /\ Emit(<<CretEv(c, a)>>)
                   ELSE /\ fs' = [fs EXCEPT !.iout[c] = v, !.ist[c] = "R", !.ipend = @ - 1, !.iidx = @ + 1]
                        /\ alive' = [alive EXCEPT ![c] = FALSE]
                        /\ pc' = "scan" /\ NoRet
                        /\ Emit(<<CretEv(c, a), EvCdrop(c)>>)
  /\ UNCHANGED <<cfg, rd, cur, polls, handed, firedL, gen, wokenL, started, nfire, nstale, nspur, ninfire, seen, conc, quiesced>>

---------------------------------------------------------------------------
(* wake-ups: an inner leaf's waker chains through the inner readiness into the outer one *)
NWakeEffect(c, k, inp) ==
  LET w == handed[c][k + 1]
      wid == WidIn(seen, w)
      outerWake(slot) ==       \* InlineWaker::wake of the outer join for `slot`: <<new rd, woke the parent?>>
        <<RSet(rd, slot), ~rd.bits[slot]>> IN
  /\ firedL' = [firedL EXCEPT ![c] = @ \/ (k = polls[c] - 1)]
  /\ CASE w[1] = "i" ->
            LET iold == fs.ird.bits[w[2]] IN
            IF iold
              THEN /\ UNCHANGED <<fs, rd, wokenL>>
                   /\ Emit(<<EvFire(c, k, wid, inp), EvFired(c, k)>>)
              ELSE \* the inner join notifies the waker it stored: the outer sub-waker of slot 0
                   LET ow == outerWake(0) IN
                   /\ fs' = [fs EXCEPT !.ird = ISet(@, w[2])]
                   /\ rd' = ow[1]
                   /\ wokenL' = (wokenL \/ (ow[2] /\ rd.parent = gen))
                   /\ Emit(<<EvFire(c, k, wid, inp)>> \o (IF ow[2] THEN <<EvPwake(rd.parent)>> ELSE <<>>) \o <<EvFired(c, k)>>)
       [] w[1] = "s" ->
            LET ow == outerWake(w[2]) IN
            /\ rd' = ow[1] /\ UNCHANGED fs
            /\ wokenL' = (wokenL \/ (ow[2] /\ rd.parent = gen))
            /\ Emit(<<EvFire(c, k, wid, inp)>> \o (IF ow[2] THEN <<EvPwake(rd.parent)>> ELSE <<>>) \o <<EvFired(c, k)>>)
       [] w[1] = "p" ->
            /\ UNCHANGED <<fs, rd>>
            /\ wokenL' = (wokenL \/ w[2] = gen)
            /\ Emit(<<EvFire(c, k, wid, inp), EvPwake(w[2]), EvFired(c, k)>>)

NWake(c, k) ==
  /\ pc \in {"idle", "dropped", "begin"}
  /\ Fireable(c, k)
  /\ nfire < cfg.maxFire /\ nfire' = nfire + 1
  /\ StaleBudget(c, k)
  /\ NWakeEffect(c, k, FALSE)
  /\ conc' = (conc \/ pc = "begin")
  /\ quiesced' = FALSE
  /\ UNCHANGED <<cfg, pc, cur, ans, alive, pend, nit, polls, handed, gen, started, final, needPoll, nspur, ninfire, seen>>

NInFire(c, k) ==
  /\ pc = "inchild"
  /\ Fireable(c, k)
  /\ ninfire < cfg.maxInFire /\ ninfire' = ninfire + 1
  /\ StaleBudget(c, k)
  /\ NWakeEffect(c, k, TRUE)
  /\ UNCHANGED <<cfg, pc, cur, ans, alive, pend, nit, polls, handed, gen, started, final, needPoll, nfire, nspur, seen, conc, quiesced>>

NThreadWake(c, k) ==
  /\ pc = "scan" /\ cfg.threads
  /\ Fireable(c, k) /\ k = polls[c] - 1
  /\ nfire < cfg.maxFire /\ nfire' = nfire + 1
  /\ NWakeEffect(c, k, TRUE)
  /\ conc' = TRUE
  /\ UNCHANGED <<cfg, pc, cur, ans, alive, pend, nit, polls, handed, gen, started, final, needPoll, nstale, nspur, ninfire, seen, quiesced>>

NWakes == \E c \in Ch : \E k \in 0..(polls[c] - 1) : NWake(c, k) \/ NInFire(c, k) \/ NThreadWake(c, k)

NOwedWake(c) ==
  /\ pc = "idle" /\ c \in Owed
  /\ NWakeEffect(c, polls[c] - 1, FALSE)
  /\ quiesced' = FALSE
  /\ UNCHANGED <<cfg, pc, cur, ans, alive, pend, nit, polls, handed, gen, started, final, needPoll,
                 nfire, nstale, nspur, ninfire, seen, conc>>

---------------------------------------------------------------------------
(* PinnedDrop of the outer tuple join *)
InnerDropEvents ==       \* PinnedDrop of the inner array join: initialised outputs, then pending children
  MapSeq(SelectSeq(<<0, 1>>, LAMBDA i : fs.ist[i] = "R"), LAMBDA i : EvVdrop(fs.iout[i]))
  \o MapSeq(SelectSeq(<<0, 1>>, LAMBDA i : fs.ist[i] = "P"), LAMBDA i : EvCdrop(i))
DropEvents ==      \* drop_initialized_values! for every slot, then drop_pending_futures! for every slot
  (IF fs.ost[0] = "R" THEN <<EvVdrop(fs.iout[0]), EvVdrop(fs.iout[1])>> ELSE <<>>)
  \o (IF fs.ost[1] = "R" THEN <<EvVdrop(fs.oout[2])>> ELSE <<>>)
  \o (IF fs.ost[0] = "P" THEN InnerDropEvents ELSE <<>>)
  \o (IF fs.ost[1] = "P" THEN <<EvCdrop(2)>> ELSE <<>>)
Drop == DropWith(DropEvents)
ChildPanic == PanicWith(DropEvents)

Next == Poll \/ PollReuse \/ NWakes \/ Quiesce \/ Finish \/ PollBegin \/ ScanStep \/ ChildAnswer \/ ChildPanic \/ Drop
NextLive == Next \/ \E c \in Ch : NOwedWake(c)
Spec == Init /\ [][Next]_vars
LiveSpec == Init /\ [][NextLive]_vars
            /\ WF_vars(Poll /\ (~started \/ wokenL)) /\ WF_vars(PollBegin) /\ WF_vars(ScanStep) /\ WF_vars(ChildAnswer)
            /\ \A c \in 0..2 : WF_vars(NOwedWake(c))

---------------------------------------------------------------------------
TypeOK == /\ EnvTypeOK
          /\ fs.ipend = Cardinality({i \in InnerKids : fs.ist[i] = "P"}) \/ fs.iconsumed
InnerCount == Sub => fs.ird.count = Cardinality({i \in InnerKids : fs.ird.bits[i]})
\* the chain of registrations: while parked, a set inner bit implies a set outer bit for the inner join's slot
Chained == (Sub /\ pc = "idle" /\ started /\ fs.ost[0] = "P") => ((\E i \in InnerKids : fs.ird.bits[i] /\ fs.ist[i] = "P") => rd.bits[0])
Resolves == (cfg.never = <<>> /\ ~cfg.drop /\ ~cfg.panic) => <>(final)
=============================================================================
