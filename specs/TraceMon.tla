----------------------------- MODULE TraceMon -----------------------------
(***************************************************************************)
(* Folds an ndjson trace recorded from the real code (IOEnv.TRACE) through *)
(* the property monitors.  Many runs are concatenated in one file; a "new" *)
(* event re-initialises the monitor.  Every violation is printed as one    *)
(* line  VIOL {json}  the moment it is detected; per-run obligation        *)
(* coverage is aggregated and printed as  STATS {json}  at the end.        *)
(***************************************************************************)
EXTENDS Monitors, Json, IOUtils

Rec == ndJsonDeserialize(IOEnv.TRACE)

VARIABLES l, m, id, agg, nruns

vars == <<l, m, id, agg, nruns>>

Dummy == [bad |-> {}, armed |-> {}]

Init == /\ l = 1
        /\ m = Dummy
        /\ id = ""
        /\ agg = << >>
        /\ nruns = 0

Bump(a, names) ==
  [k \in DOMAIN a \cup names |->
     (IF k \in DOMAIN a THEN a[k] ELSE 0) + (IF k \in names THEN 1 ELSE 0)]

Next ==
  /\ l <= Len(Rec)
  /\ LET e == Rec[l]
         nm == IF e.e = "new" THEN MonInit(e)
               ELSE IF id = "" \/ e.e = "skip" THEN m
               ELSE MonStep(m, e)
         newbad == IF e.e = "new" THEN {} ELSE nm.bad \ m.bad
     IN /\ m' = nm
        /\ id' = IF e.e = "new" THEN e.id ELSE id
        /\ nruns' = IF e.e = "new" THEN nruns + 1 ELSE nruns
        /\ agg' = IF e.e = "end" THEN Bump(agg, nm.armed) ELSE agg
        /\ l' = l + 1
        /\ (newbad # {}) => PrintT("VIOL " \o ToJson([l |-> l, id |-> id, bad |-> newbad]))
        /\ (e.e = "end" /\ id # "") => PrintT("RUN " \o ToJson([id |-> id, armed |-> nm.armed]))
        /\ (l = Len(Rec)) => PrintT("STATS " \o ToJson([events |-> Len(Rec), runs |-> nruns', armed |-> agg']))

Spec == Init /\ [][Next]_vars

\* the whole trace was consumed
Consumed == TLCGet("stats").diameter - 1 = Len(Rec)
=============================================================================
