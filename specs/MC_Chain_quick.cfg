SPECIFICATION Spec
CONSTANT Cfgs <- CfgsQuick
INVARIANT MonitorsQuiet Sequential TypeOK
CHECK_DEADLOCK FALSE
