SPECIFICATION Spec
CONSTANT Cfgs <- CfgsThorough
INVARIANT MonitorsQuiet ReadinessCount ParentPresent ParentLatest Rearmed TypeOK
CHECK_DEADLOCK FALSE
