------------------------------ MODULE MC_Chain ------------------------------
EXTENDS Chain, Json

B(rec, mp, mi, mf, ms, sp, mif, dr, pa) ==
  [rec |-> rec, maxPend |-> mp, maxItems |-> mi, maxFire |-> mf, maxStale |-> ms, maxSpur |-> sp, maxInFire |-> mif,
   drop |-> dr, panic |-> pa, threads |-> FALSE]

Mk(n, never, b) ==
  [fam |-> "chain", cont |-> "arr", n |-> n, feat |-> "alloc", sub |-> FALSE, rdy |-> FALSE, stream |-> TRUE,
   fallible |-> FALSE, group |-> FALSE, never |-> never, x |-> -1, conts |-> <<"arr", "vec", "tup">>] @@ b

CfgsQuick ==
  {[repoll |-> TRUE] @@ Mk(2, <<>>, B(FALSE, 1, 1, 1, 0, 0, 0, FALSE, FALSE))} \cup
  {[reuse |-> TRUE] @@ Mk(2, <<>>, B(FALSE, 1, 1, 1, 0, 1, 0, FALSE, FALSE))} \cup
  {Mk(2, <<>>, B(FALSE, 1, 2, 2, 1, 1, 1, TRUE, TRUE)), Mk(3, <<>>, B(FALSE, 1, 1, 1, 1, 1, 1, FALSE, FALSE)),
   Mk(2, <<0>>, B(FALSE, 1, 1, 2, 1, 1, 1, FALSE, FALSE)), Mk(0, <<>>, B(FALSE, 1, 1, 1, 0, 0, 0, TRUE, FALSE)),
   Mk(1, <<>>, B(FALSE, 2, 2, 1, 1, 1, 1, TRUE, TRUE))}
CfgsThorough ==
  CfgsQuick \cup
  {Mk(3, nv, B(FALSE, 2, 2, 3, 1, 1, 2, TRUE, TRUE)) : nv \in {<<>>, <<1>>}} \cup {Mk(4, <<>>, B(FALSE, 1, 1, 2, 1, 1, 1, TRUE, FALSE))}
CfgsGenQ ==
  {Mk(2, <<>>, B(TRUE, 1, 1, 1, 1, 1, 1, TRUE, TRUE)), Mk(0, <<>>, B(TRUE, 1, 1, 1, 0, 0, 0, TRUE, FALSE)),
   Mk(1, <<>>, B(TRUE, 1, 1, 1, 1, 1, 1, TRUE, FALSE)), Mk(2, <<1>>, B(TRUE, 1, 1, 1, 0, 0, 1, FALSE, FALSE))}
CfgsGen ==
  {Mk(2, <<>>, B(TRUE, 2, 2, 2, 1, 1, 1, TRUE, TRUE)), Mk(3, <<>>, B(TRUE, 1, 1, 2, 1, 1, 1, TRUE, FALSE)),
   Mk(0, <<>>, B(TRUE, 1, 1, 1, 0, 0, 0, TRUE, FALSE)), Mk(1, <<>>, B(TRUE, 1, 2, 1, 1, 1, 1, TRUE, FALSE)),
   Mk(2, <<1>>, B(TRUE, 1, 1, 2, 0, 1, 1, FALSE, FALSE))}
CfgsLiveQ == {Mk(2, <<>>, B(FALSE, 1, 1, 1, 1, 1, 1, FALSE, FALSE))}
CfgsLive == {Mk(2, <<>>, B(FALSE, 2, 1, 1, 1, 1, 1, FALSE, FALSE)), Mk(3, <<>>, B(FALSE, 1, 1, 1, 0, 0, 1, FALSE, FALSE))}

ExportOK == ExportEnd => PrintT("VEC " \o ToJson([cfg |-> cfg, hist |-> hist']))
=============================================================================
