SPECIFICATION Spec
CONSTANT Cfgs <- CfgsQuick
INVARIANT MonitorsQuiet Untouched TypeOK
CHECK_DEADLOCK FALSE
