------------------------------- MODULE L2Env -------------------------------
(***************************************************************************)
(* Shared part of the implementation-shaped (L2) specifications: the       *)
(* environment of a combinator (scripted children, the wakers handed to    *)
(* them, the caller / wake-only executor), the readiness record of         *)
(* utils/wakers (ReadinessArray / ReadinessVec, InlineWaker::wake; the     *)
(* degenerate strategy of no_std.rs), and the plumbing every family needs  *)
(* (event records, emitting into the property monitors and the history,    *)
(* ending a poll, dropping, unwinding).                                    *)
(*                                                                         *)
(* A family module (Race, Merge, Zip, Chain, WaitUntil, Groups) EXTENDS    *)
(* this module, keeps its own fields in the record-valued variable fs and  *)
(* defines PollBegin / ScanStep / ChildAnswer / Drop ... on top of it.     *)
(* (JoinLike.tla predates this module and carries its own copy.)           *)
(*                                                                         *)
(* cfg (chosen in Init from the constant set Cfgs, never changed):         *)
(*   fam, cont, n       family, container variant, number of children      *)
(*   feat               "std" | "alloc"  (what the `new` event reports)    *)
(*   sub                the std sub-waker protocol is in effect            *)
(*   rdy                the family has a readiness record at all           *)
(*   stream, fallible   kind of children                                   *)
(*   never, x           never-completing children; the always-ready input  *)
(*   maxPend, maxItems, maxFire, maxStale, maxSpur, maxInFire   budgets    *)
(*   drop, panic, threads, rec                                             *)
(***************************************************************************)
EXTENDS Naturals, Integers, Sequences, FiniteSets, TLC, Monitors

CONSTANTS Cfgs

VARIABLES
  cfg,
  fs,        \* the combinator's own fields (a record, defined by the family module)
  rd,        \* readiness: [bits, count, parent]   (parent = generation of the stored parent waker, -1 = None)
  pc,        \* "idle" | "begin" | "scan" | "inchild" | "repolled" | "dropped" | "end"
  cur,       \* the child whose poll is in progress (pc = "inchild")
  \* ---- children ----
  ans,       \* per child: "new" | "pending" | "some" | "done"
  alive,     \* per child: not yet dropped
  pend,      \* per child: Pending answers given
  nit,       \* per child: items produced
  polls,     \* per child: number of polls so far
  handed,    \* per child: waker identities handed out, in order
  firedL,    \* per child: its latest waker has been invoked since its last poll began
  \* ---- caller ----
  gen, wokenL, started, final, needPoll,
  nfire, nstale, nspur, ninfire,
  seen,      \* waker identities in first-seen order (position - 1 = the harness' wid)
  conc,      \* a step happened that only a second thread could produce
  quiesced,
  m, hist

vars == <<cfg, fs, rd, pc, cur, ans, alive, pend, nit, polls, handed, firedL, gen, wokenL, started, final, needPoll,
          nfire, nstale, nspur, ninfire, seen, conc, quiesced, m, hist>>
view == <<cfg, fs, rd, pc, cur, ans, alive, pend, nit, polls, handed, firedL, gen, wokenL, started, final, needPoll,
          nfire, nstale, nspur, ninfire, seen, conc, quiesced, m>>

\* groups of variables for frame conditions
childV == <<ans, pend, nit>>
handV == <<polls, handed, firedL, seen>>
callV == <<gen, wokenL, started>>
budV == <<nfire, nstale, nspur, ninfire>>

N == cfg.n
\* optional flags (absent = FALSE): trace validation mode, the caller may present the previous waker again
TraceMode == "trace" \in DOMAIN cfg /\ cfg.trace
Reuse == "reuse" \in DOMAIN cfg /\ cfg.reuse
Repollable == TraceMode \/ ("repoll" \in DOMAIN cfg /\ cfg.repoll)
Ch == DOMAIN ans
Sub == cfg.sub
NeverSet == Range(cfg.never)

---------------------------------------------------------------------------
(* events (DESIGN.md 3.3) *)
Opt(c, f, d) == IF f \in DOMAIN c THEN c[f] ELSE d
NewEv(c) == [e |-> "new", id |-> "l2", fam |-> c.fam, cont |-> c.cont, n |-> c.n, feat |-> c.feat,
             stream |-> c.stream, sub |-> (c.sub /\ c.fam # "co"), never |-> c.never, x |-> c.x,
             limit |-> Opt(c, "limit", 0), take |-> Opt(c, "take", -1),
             nmaps |-> Opt(c, "nmaps", 0), term |-> Opt(c, "term", ""), stack |-> "[]"]
EvPoll(g) == [e |-> "poll", g |-> g]
EvCpoll(c, k, wid, pw) == [e |-> "cpoll", c |-> c, k |-> k, wid |-> wid, pw |-> pw]
EvCret(c, k, r, ok, v) == [e |-> "cret", c |-> c, k |-> k, r |-> r, ok |-> ok, v |-> v]
EvFire(c, k, wid, inp) == [e |-> "fire", c |-> c, k |-> k, wid |-> wid, inp |-> inp]
EvPwake(g) == [e |-> "pwake", g |-> g]
EvFired(c, k) == [e |-> "fired", c |-> c, k |-> k]
EvRet(r, ok, v, o, key) == [e |-> "ret", r |-> r, ok |-> ok, v |-> v, out |-> o, key |-> key]
EvCdrop(c) == [e |-> "cdrop", c |-> c, ok |-> TRUE]
EvVdrop(v) == [e |-> "vdrop", v |-> v, ok |-> TRUE]
Ev(name) == [e |-> name]

Emit(es) == /\ m' = MonSteps(m, es)
            /\ hist' = IF cfg.rec THEN hist \o es ELSE hist

MapSeq(s, Op(_)) == [i \in DOMAIN s |-> Op(s[i])]
SeqOfSet(S) == \* ascending enumeration of a finite set of naturals
  LET RECURSIVE F(_)
      F(T) == IF T = {} THEN <<>> ELSE LET x == CHOOSE y \in T : \A z \in T : y <= z IN <<x>> \o F(T \ {x})
  IN F(S)
UpTo(n) == [i \in 1..n |-> i - 1]     \* <<0, 1, ..., n-1>>

---------------------------------------------------------------------------
(* Readiness: utils/wakers/{array,vec}/readiness_*.rs under `std`; no_std.rs otherwise *)
RInit(n) == [bits |-> [i \in 0..(n - 1) |-> TRUE], count |-> n, parent |-> -1]
RAny(r) == IF Sub THEN r.count > 0 ELSE TRUE                       \* any_ready
RClearOld(r, i) == IF Sub THEN r.bits[i] ELSE TRUE                 \* clear_ready: the returned old bit
RClear(r, i) == IF Sub /\ r.bits[i] THEN [r EXCEPT !.bits[i] = FALSE, !.count = @ - 1] ELSE r
RSetOld(r, i) == IF Sub THEN r.bits[i] ELSE FALSE                  \* set_ready: the returned old bit
RSet(r, i) == IF Sub /\ ~r.bits[i] THEN [r EXCEPT !.bits[i] = TRUE, !.count = @ + 1] ELSE r
RSetAll(r) == IF Sub THEN [r EXCEPT !.bits = [i \in DOMAIN r.bits |-> TRUE], !.count = Cardinality(DOMAIN r.bits)] ELSE r
RSetWaker(r, g) == [r EXCEPT !.parent = g]
\* ReadinessVec::resize (growth only): new slots are marked ready
RResize(r, n) == LET old == Cardinality(DOMAIN r.bits) IN
  IF n <= old THEN r
  ELSE [r EXCEPT !.bits = [i \in 0..(n - 1) |-> IF i < old THEN r.bits[i] ELSE TRUE],
                 !.count = IF Sub THEN @ + (n - old) ELSE @]

CountOK == Sub => rd.count = Cardinality({i \in DOMAIN rd.bits : rd.bits[i]})

\* the identity of the waker a child is handed: its slot's InlineWaker (std sub-waker protocol), the
\* stored parent waker (no_std.rs: WakerArray::get returns the parent waker), or the caller's waker
\* itself (race, race_ok, chain, wait_until pass cx through)
WakerFor(slot) == IF Sub THEN <<"s", slot>> ELSE IF cfg.rdy THEN <<"p", rd.parent>> ELSE <<"p", gen>>
WidIn(s, w) == (CHOOSE i \in DOMAIN s : s[i] = w) - 1
\* (concurrent streams: the waker identities belong to third-party futures-buffered; they are canonicalised to -7)
WidOf(w) == IF cfg.fam = "co" /\ TraceMode THEN -7 ELSE WidIn(seen, w)
Seen1(w) == IF \E i \in DOMAIN seen : seen[i] = w THEN seen ELSE Append(seen, w)

\* hand waker w to child c and start its poll: the cpoll event and the bookkeeping
CpollEv(c, w) == EvCpoll(c, polls[c], WidIn(Seen1(w), w), IF w[1] = "p" THEN w[2] ELSE -1)
HandOut(c, w) ==
  /\ seen' = Seen1(w)
  /\ handed' = [handed EXCEPT ![c] = Append(@, w)]
  /\ polls' = [polls EXCEPT ![c] = @ + 1]
  /\ firedL' = [firedL EXCEPT ![c] = FALSE]
  /\ cur' = c /\ pc' = "inchild"

---------------------------------------------------------------------------
(* the children's side of a poll *)
Val(c) == c * 1000 + (polls[c] - 1)          \* value produced by the poll of c that is in progress
K(c) == polls[c] - 1

\* what child c may answer now; isStream: the child is a stream
Answers(c, isStream) ==
     (IF (pend[c] < cfg.maxPend \/ c \in NeverSet) /\ c # cfg.x THEN {[r |-> "pending", ok |-> TRUE]} ELSE {})
  \cup (IF isStream
          THEN \* a never-ending input may still produce items; it just never ends
               (IF nit[c] < cfg.maxItems \/ (c = cfg.x /\ nit[c] < cfg.maxX) THEN {[r |-> "some", ok |-> TRUE]} ELSE {})
               \cup (IF c # cfg.x /\ c \notin NeverSet THEN {[r |-> "none", ok |-> TRUE]} ELSE {})
          ELSE IF c \in NeverSet THEN {}
               ELSE {[r |-> "ready", ok |-> TRUE]} \cup (IF cfg.fallible THEN {[r |-> "ready", ok |-> FALSE]} ELSE {}))

ChildSays(c, a) ==
  /\ ans' = [ans EXCEPT ![c] = CASE a.r = "pending" -> "pending" [] a.r = "some" -> "some" [] OTHER -> "done"]
  /\ pend' = IF a.r = "pending" /\ c \notin NeverSet THEN [pend EXCEPT ![c] = @ + 1] ELSE pend
  /\ nit' = IF a.r = "some" THEN [nit EXCEPT ![c] = @ + 1] ELSE nit

CretEv(c, a) == EvCret(c, K(c), a.r, a.ok, IF a.r \in {"ready", "some"} THEN Val(c) ELSE -1)

---------------------------------------------------------------------------
(* ending a poll *)
IsFinalRet(r) == r \in {"ready", "none"} /\ ~cfg.group
Ret(r) == /\ pc' = "idle"
          /\ final' = IsFinalRet(r)
          /\ needPoll' = (r = "some")
NoRet == UNCHANGED <<final, needPoll>>

---------------------------------------------------------------------------
InitEnv(c, nch, f) ==
  /\ cfg = c
  /\ fs = f
  /\ rd = RInit(IF c.rdy /\ c.fam # "co" THEN c.n ELSE 0)
  /\ pc = "idle" /\ cur = -1
  /\ ans = [i \in 0..(nch - 1) |-> "new"]
  /\ alive = [i \in 0..(nch - 1) |-> TRUE]
  /\ pend = [i \in 0..(nch - 1) |-> 0]
  /\ nit = [i \in 0..(nch - 1) |-> 0]
  /\ polls = [i \in 0..(nch - 1) |-> 0]
  /\ handed = [i \in 0..(nch - 1) |-> <<>>]
  /\ firedL = [i \in 0..(nch - 1) |-> FALSE]
  /\ gen = -1 /\ wokenL = FALSE /\ started = FALSE /\ final = FALSE /\ needPoll = FALSE
  /\ nfire = 0 /\ nstale = 0 /\ nspur = 0 /\ ninfire = 0
  /\ seen = <<>> /\ conc = FALSE /\ quiesced = FALSE
  /\ m = MonStep(MonInit(NewEv(c)), [e |-> "built"])
  /\ hist = <<>>

---------------------------------------------------------------------------
(* The caller: polls first, after the latest waker it presented was invoked, right after an  *)
(* item or a group operation, and spuriously within a budget; a fresh waker on every poll.   *)
Poll ==
  /\ pc = "idle" /\ ~final
  /\ LET spurious == started /\ ~wokenL /\ ~needPoll IN
       /\ spurious => nspur < cfg.maxSpur
       /\ nspur' = IF spurious THEN nspur + 1 ELSE nspur
  /\ gen' = gen + 1
  /\ wokenL' = FALSE /\ started' = TRUE /\ quiesced' = FALSE /\ needPoll' = FALSE
  /\ pc' = "begin"
  /\ Emit(<<EvPoll(gen + 1)>>)
  /\ UNCHANGED <<cfg, fs, rd, cur, ans, alive, pend, nit, polls, handed, firedL, final, nfire, nstale, ninfire, seen, conc>>

\* the caller presents the same waker as in its previous poll (a re-used waker counts as "latest" again)
PollReuse ==
  /\ pc = "idle" /\ ~final /\ started /\ Reuse
  /\ LET spurious == ~wokenL /\ ~needPoll IN
       /\ spurious => nspur < cfg.maxSpur
       /\ nspur' = IF spurious THEN nspur + 1 ELSE nspur
  /\ wokenL' = FALSE /\ quiesced' = FALSE /\ needPoll' = FALSE
  /\ pc' = "begin"
  /\ Emit(<<EvPoll(gen)>>)
  /\ UNCHANGED <<cfg, fs, rd, cur, ans, alive, pend, nit, polls, handed, firedL, gen, started, final, nfire, nstale, ninfire, seen, conc>>

---------------------------------------------------------------------------
(* InlineWaker::wake (utils/wakers/array/waker.rs:21-30, vec/waker.rs), resp. the caller's   *)
(* own waker where it was passed through.  Enabled for every waker ever handed out, in every *)
(* state of the combinator (also after it was dropped: the Arc keeps the readiness alive).   *)
WakeEffect(c, k, inp) ==
  LET w == handed[c][k + 1]
      wid == WidOf(w)
  IN /\ firedL' = [firedL EXCEPT ![c] = @ \/ (k = polls[c] - 1)]
     /\ IF w[1] = "s"
          THEN LET i == w[2]
                   old == rd.bits[i]
                   \* (concurrent streams: futures-buffered registers the parent waker one-shot: a notification
                   \*  consumes it until the group is polled again)
                   oneShot == cfg.fam = "co"
                   notify == ~old /\ (oneShot => rd.parent >= 0) IN
               /\ rd' = IF oneShot /\ notify THEN [RSet(rd, i) EXCEPT !.parent = -1] ELSE RSet(rd, i)
               /\ wokenL' = (wokenL \/ (notify /\ rd.parent = gen))
               /\ Emit(<<EvFire(c, k, wid, inp)>> \o (IF notify THEN <<EvPwake(rd.parent)>> ELSE <<>>) \o <<EvFired(c, k)>>)
          ELSE LET g == w[2] IN
               /\ UNCHANGED rd
               /\ wokenL' = (wokenL \/ g = gen)
               /\ Emit(<<EvFire(c, k, wid, inp), EvPwake(g), EvFired(c, k)>>)

Fireable(c, k) == c \in Ch /\ polls[c] > 0 /\ k \in 0..(polls[c] - 1)
StaleBudget(c, k) == IF k = polls[c] - 1 THEN UNCHANGED nstale ELSE (nstale < cfg.maxStale /\ nstale' = nstale + 1)

\* between polls (also between the caller's decision to poll and the poll itself: another thread)
Wake(c, k) ==
  /\ pc \in {"idle", "dropped", "begin", "repolled"}
  /\ Fireable(c, k)
  /\ nfire < cfg.maxFire /\ nfire' = nfire + 1
  /\ StaleBudget(c, k)
  /\ WakeEffect(c, k, FALSE)
  /\ conc' = (conc \/ pc = "begin")
  /\ quiesced' = FALSE
  /\ UNCHANGED <<cfg, fs, pc, cur, ans, alive, pend, nit, polls, handed, gen, started, final, needPoll, nspur, ninfire, seen>>

\* from inside a child's poll (of the child itself or of a sibling)
InFire(c, k) ==
  /\ pc = "inchild"
  /\ Fireable(c, k)
  /\ ninfire < cfg.maxInFire /\ ninfire' = ninfire + 1
  /\ StaleBudget(c, k)
  /\ WakeEffect(c, k, TRUE)
  /\ UNCHANGED <<cfg, fs, pc, cur, ans, alive, pend, nit, polls, handed, gen, started, final, needPoll, nfire, nspur, seen, conc, quiesced>>

\* from another thread while the combinator holds no lock, between two scan steps (not replayable)
ThreadWake(c, k) ==
  /\ pc = "scan" /\ cfg.threads
  /\ Fireable(c, k) /\ k = polls[c] - 1
  /\ nfire < cfg.maxFire /\ nfire' = nfire + 1
  /\ WakeEffect(c, k, TRUE)
  /\ conc' = TRUE
  /\ UNCHANGED <<cfg, fs, pc, cur, ans, alive, pend, nit, polls, handed, gen, started, final, needPoll, nstale, nspur, ninfire, seen, quiesced>>

Wakes == \E c \in Ch : \E k \in 0..(polls[c] - 1) : Wake(c, k) \/ InFire(c, k) \/ ThreadWake(c, k)

---------------------------------------------------------------------------
(* dropping the combinator; unwinding out of a child's poll *)
DropWith(evs) ==
  /\ pc \in {"idle", "repolled"}
  /\ cfg.drop \/ final \/ quiesced
  /\ pc' = "dropped"
  /\ alive' = [c \in Ch |-> FALSE]
  /\ Emit(<<Ev("drop")>> \o evs \o <<Ev("dropped")>>)
  /\ UNCHANGED <<cfg, fs, rd, cur, ans, pend, nit, polls, handed, firedL, gen, wokenL, started, final, needPoll,
                 nfire, nstale, nspur, ninfire, seen, conc, quiesced>>

PanicWith(evs) ==
  /\ pc = "inchild" /\ cfg.panic
  /\ Emit(<<EvCret(cur, K(cur), "panic", TRUE, -1), [e |-> "panic", at |-> "poll"], Ev("drop")>> \o evs \o <<Ev("dropped")>>)
  /\ pc' = "dropped" /\ final' = TRUE
  /\ alive' = [c \in Ch |-> FALSE]
  /\ UNCHANGED <<cfg, fs, rd, cur, ans, pend, nit, polls, handed, firedL, gen, wokenL, started, needPoll,
                 nfire, nstale, nspur, ninfire, seen, conc, quiesced>>

(* One more poll after the final result (the caller breaks the Future / Stream contract; what it returns is      *)
(* unspecified, but no child may be polled: C03).  The types that guard themselves with an assertion panic, the   *)
(* caller then drops them; merge answers Pending from its state table.                                            *)
RepollPanics(evs) ==
  /\ pc = "idle" /\ final /\ Repollable
  /\ gen' = gen + 1
  /\ pc' = "dropped"
  /\ alive' = [c \in Ch |-> FALSE]
  /\ Emit(<<[e |-> "repoll", g |-> gen + 1], [e |-> "panic", at |-> "repoll"], Ev("drop")>> \o evs \o <<Ev("dropped")>>)
  /\ UNCHANGED <<cfg, fs, rd, cur, ans, pend, nit, polls, handed, firedL, wokenL, started, final, needPoll,
                 nfire, nstale, nspur, ninfire, seen, conc, quiesced>>

RepollAnswers(r) ==
  /\ pc = "idle" /\ final /\ Repollable
  /\ gen' = gen + 1
  /\ pc' = "repolled"
  /\ Emit(<<[e |-> "repoll", g |-> gen + 1], [e |-> "reret", r |-> r]>>)
  /\ UNCHANGED <<cfg, fs, rd, cur, ans, alive, pend, nit, polls, handed, firedL, wokenL, started, final, needPoll,
                 nfire, nstale, nspur, ninfire, seen, conc, quiesced>>

(* the wake-only executor has nothing left to do *)
Owed == {c \in Ch : alive[c] /\ ans[c] = "pending" /\ ~firedL[c] /\ c \notin NeverSet}
Quiesce ==
  /\ IF TraceMode
       THEN \* the harness' `settle` reports quiescence whenever its loop ends: also after the final result / the drop
            /\ pc \in {"idle", "dropped", "repolled"}
            /\ (pc = "dropped" \/ final \/ (started /\ ~wokenL /\ ~needPoll /\ Owed = {}))
       ELSE /\ pc = "idle" /\ started /\ ~wokenL /\ ~needPoll /\ ~quiesced /\ ~final
            /\ Owed = {}
  /\ quiesced' = TRUE
  /\ Emit(<<Ev("quiesce")>>)
  /\ UNCHANGED <<cfg, fs, rd, pc, cur, ans, alive, pend, nit, polls, handed, firedL, gen, wokenL, started, final, needPoll,
                 nfire, nstale, nspur, ninfire, seen, conc>>

Finish ==          \* the end of the run: the monitors close their ledgers (not part of the recorded history: the harness' own marker)
  /\ pc = "dropped" /\ pc' = "end"
  /\ m' = MonStep(m, Ev("end")) /\ hist' = hist
  /\ UNCHANGED <<cfg, fs, rd, cur, ans, alive, pend, nit, polls, handed, firedL, gen, wokenL, started, final, needPoll,
                 nfire, nstale, nspur, ninfire, seen, conc, quiesced>>

\* delivery of an owed wake-up (fairness only): consumes no budget
OwedWake(c) ==
  /\ pc = "idle" /\ c \in Owed
  /\ WakeEffect(c, polls[c] - 1, FALSE)
  /\ quiesced' = FALSE
  /\ UNCHANGED <<cfg, fs, pc, cur, ans, alive, pend, nit, polls, handed, gen, started, final, needPoll,
                 nfire, nstale, nspur, ninfire, seen, conc>>

EnvNext == Poll \/ PollReuse \/ Wakes \/ Quiesce \/ Finish

---------------------------------------------------------------------------
(* properties shared by all families *)
MonitorsQuiet == m.bad = {}
ReadinessCount == CountOK
\* the "parent waker absent" branch of InlineWaker::wake is unreachable
ParentPresent == (Sub /\ \E c \in Ch : polls[c] > 0) => rd.parent >= 0
EnvTypeOK == /\ pc \in {"idle", "begin", "scan", "inchild", "repolled", "dropped", "end"}
             /\ \A c \in Ch : ans[c] \in {"new", "pending", "some", "done"}

\* export: one line per behaviour that reaches the end of a run (recorded, single-threaded ones only)
ExportEnd == pc' = "end" /\ pc # "end" /\ ~conc' /\ cfg.rec

=============================================================================
