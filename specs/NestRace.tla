------------------------------ MODULE NestRace ------------------------------
(***************************************************************************)
(* One level of nesting across the two waker strategies of the crate,      *)
(* implementation-shaped:                                                  *)
(*     vec![ box(map([c0, c1].join())), box(map(c2)) ].race()              *)
(* an outer Vec race (src/future/race/vec.rs: rotating Indexer, `done`     *)
(* assertion, the caller's Context passed straight through to the arms)    *)
(* whose arm 0 is an inner array join (src/future/join/array.rs: its own   *)
(* readiness record, sub-wakers for its leaves) and whose arm 1 is the     *)
(* leaf c2.  What Nest.tla / NestStream.tla do not have:                   *)
(*   - the inner combinator's stored parent waker is the CALLER's waker of *)
(*     the most recent poll that reached it (not an outer sub-waker): a    *)
(*     wake-up of c0 sets the inner bit and, if it was clear, invokes that *)
(*     waker directly; a fresh caller waker per poll makes every earlier   *)
(*     registration stale unless the inner join is polled again, which the *)
(*     race does on every poll;                                            *)
(*   - cancellation of a combinator that has children of its own: when c2  *)
(*     wins, the inner join stays in place, is never polled again, and is  *)
(*     dropped with the race future: outputs it had already collected are  *)
(*     dropped, its pending leaves are cancelled (C02, C06 for a nest);    *)
(*     its sub-wakers remain invocable afterwards (stale wake-ups reach a  *)
(*     readiness record that nobody reads any more);                       *)
(*   - the rotating start of the race decides which arm is polled first    *)
(*     and hence who wins when both could.                                 *)
(* In the alloc / no_std configuration the inner join hands the caller's   *)
(* waker of the current poll to its leaves and polls every unfinished leaf *)
(* on every poll.                                                          *)
(*                                                                         *)
(* fs: ist, ipend, iout, iconsumed, ird, iidx (inner join)                 *)
(*     odone, ooffset, oorder (outer race), lvl ("outer" | "inner")        *)
(***************************************************************************)
EXTENDS L2Env

InnerKids == {0, 1}
FsInit(c) ==
  [ist |-> [i \in InnerKids |-> "P"], ipend |-> 2, iout |-> [i \in InnerKids |-> -1], iconsumed |-> FALSE,
   ird |-> [bits |-> [i \in InnerKids |-> TRUE], count |-> 2, parent |-> <<"none", -1>>], iidx |-> 0,
   odone |-> FALSE, ooffset |-> 0, oorder |-> <<>>, lvl |-> "outer"]
InitFor(c) == InitEnv(c, 3, FsInit(c))
Init == \E c \in Cfgs : InitFor(c)

\* inner readiness (same operators as L2Env's, on fs.ird)
IAny(r) == IF Sub THEN r.count > 0 ELSE TRUE
IClearOld(r, i) == IF Sub THEN r.bits[i] ELSE TRUE
IClear(r, i) == IF Sub /\ r.bits[i] THEN [r EXCEPT !.bits[i] = FALSE, !.count = @ - 1] ELSE r
ISet(r, i) == IF Sub /\ ~r.bits[i] THEN [r EXCEPT !.bits[i] = TRUE, !.count = @ + 1] ELSE r

\* the race passes the caller's waker through; the inner join hands out its sub-wakers (std) or its stored parent
CallerWaker == <<"p", gen>>
InnerWaker(i) == IF Sub THEN <<"i", i>> ELSE fs.ird.parent

Rotated2(off) == [k \in 1..2 |-> (k - 1 + off) % 2]      \* Indexer::iter over the two arms

---------------------------------------------------------------------------
(* outer Vec race: assert!(!done); indexer.iter() *)
PollBegin ==
  /\ pc = "begin" /\ ~fs.odone
  /\ fs' = [fs EXCEPT !.oorder = Rotated2(fs.ooffset), !.ooffset = (fs.ooffset + 1) % 2, !.lvl = "outer"]
  /\ pc' = "scan" /\ NoRet /\ Emit(<<>>)
  /\ UNCHANGED <<cfg, rd, cur, ans, alive, pend, nit, polls, handed, firedL, gen, wokenL, started,
                 nfire, nstale, nspur, ninfire, seen, conc, quiesced>>

\* the race loop at the next arm (race/vec.rs)
OuterStep ==
  IF fs.oorder = <<>>
    THEN /\ Ret("pending") /\ Emit(<<EvRet("pending", TRUE, -1, <<>>, -1)>>)
         /\ UNCHANGED <<fs, cur, handV>>
    ELSE LET a == Head(fs.oorder) IN
         IF a = 0
           THEN \* poll the inner join with the caller's context (join/array.rs poll): set_waker, early-out
                LET ird1 == [fs.ird EXCEPT !.parent = CallerWaker] IN
                IF fs.ipend # 0 /\ ~IAny(ird1)
                  THEN \* inner: nothing is ready: Pending; the race goes on to the next arm
                       /\ fs' = [fs EXCEPT !.ird = ird1, !.oorder = Tail(@)]
                       /\ pc' = "scan" /\ NoRet /\ Emit(<<>>) /\ UNCHANGED <<cur, handV>>
                  ELSE /\ fs' = [fs EXCEPT !.ird = ird1, !.lvl = "inner", !.iidx = 0]
                       /\ pc' = "scan" /\ NoRet /\ Emit(<<>>) /\ UNCHANGED <<cur, handV>>
           ELSE \* the leaf c2, polled with the caller's waker
                /\ HandOut(2, CallerWaker)
                /\ Emit(<<CpollEv(2, CallerWaker)>>) /\ NoRet /\ UNCHANGED fs

\* the inner loop (join/array.rs: state test first, then clear_ready)
InnerStep ==
  IF fs.iidx >= 2
    THEN IF fs.ipend = 0
           THEN \* inner Ready: the join hands out its outputs; the race is decided
                /\ fs' = [fs EXCEPT !.iconsumed = TRUE, !.ist = [i \in InnerKids |-> "N"], !.lvl = "outer", !.odone = TRUE]
                /\ Ret("ready") /\ Emit(<<EvRet("ready", TRUE, -1, <<fs.iout[0], fs.iout[1]>>, -1)>>)
                /\ UNCHANGED <<cur, handV>>
           ELSE \* inner Pending: on to the next arm
                /\ fs' = [fs EXCEPT !.lvl = "outer", !.oorder = Tail(@)]
                /\ pc' = "scan" /\ NoRet /\ Emit(<<>>) /\ UNCHANGED <<cur, handV>>
    ELSE LET i == fs.iidx IN
         IF fs.ist[i] = "P" /\ IClearOld(fs.ird, i)
           THEN /\ fs' = [fs EXCEPT !.ird = IClear(@, i)]
                /\ HandOut(i, InnerWaker(i))
                /\ Emit(<<CpollEv(i, InnerWaker(i))>>) /\ NoRet
           ELSE /\ fs' = [fs EXCEPT !.iidx = @ + 1]
                /\ pc' = "scan" /\ NoRet /\ Emit(<<>>) /\ UNCHANGED <<cur, handV>>

ScanStep ==
  /\ pc = "scan"
  /\ IF fs.lvl = "outer" THEN OuterStep ELSE InnerStep
  /\ UNCHANGED <<cfg, rd, ans, alive, pend, nit, gen, wokenL, started, nfire, nstale, nspur, ninfire, conc, quiesced>>

ChildAnswer ==
  /\ pc = "inchild"
  /\ \E a \in Answers(cur, FALSE) :
       LET c == cur
           v == Val(c) IN
       /\ ChildSays(c, a)
       /\ IF c = 2
            THEN IF a.r = "pending"
                   THEN /\ fs' = [fs EXCEPT !.oorder = Tail(@)]
                        /\ pc' = "scan" /\ NoRet /\ UNCHANGED alive /\ Emit(<<CretEv(c, a)>>)
                   ELSE \* the leaf wins; it stays in place (dropped with the race future), and so does the inner join
                        /\ fs' = [fs EXCEPT !.odone = TRUE]
                        /\ Ret("ready") /\ UNCHANGED alive
                        /\ Emit(<<CretEv(c, a), EvRet("ready", TRUE, -1, <<v>>, -1)>>)
            ELSE \* a leaf of the inner join
                 IF a.r = "pending"
                   THEN /\ fs' = [fs EXCEPT !.iidx = @ + 1]
                        /\ pc' = "scan" /\ NoRet /\ UNCHANGED alive /\ Emit(<<CretEv(c, a)>>)
                   ELSE /\ fs' = [fs EXCEPT !.iout[c] = v, !.ist[c] = "R", !.ipend = @ - 1, !.iidx = @ + 1]
                        /\ alive' = [alive EXCEPT ![c] = FALSE]
                        /\ pc' = "scan" /\ NoRet
                        /\ Emit(<<CretEv(c, a), EvCdrop(c)>>)
  /\ UNCHANGED <<cfg, rd, cur, polls, handed, firedL, gen, wokenL, started, nfire, nstale, nspur, ninfire, seen, conc, quiesced>>

---------------------------------------------------------------------------
(* wake-ups: an inner leaf's sub-waker sets the inner bit and, if it was clear, invokes the waker the inner join *)
(* stored at its last poll: the caller's waker of that poll                                                      *)
NWakeEffect(c, k, inp) ==
  LET w == handed[c][k + 1]
      wid == WidIn(seen, w) IN
  /\ firedL' = [firedL EXCEPT ![c] = @ \/ (k = polls[c] - 1)]
  /\ CASE w[1] = "i" ->
            IF fs.ird.bits[w[2]]
              THEN /\ UNCHANGED <<fs, wokenL>>
                   /\ Emit(<<EvFire(c, k, wid, inp), EvFired(c, k)>>)
              ELSE LET g == fs.ird.parent[2] IN
                   /\ fs' = [fs EXCEPT !.ird = ISet(@, w[2])]
                   /\ wokenL' = (wokenL \/ g = gen)
                   /\ Emit(<<EvFire(c, k, wid, inp), EvPwake(g), EvFired(c, k)>>)
       [] w[1] = "p" ->
            /\ UNCHANGED fs
            /\ wokenL' = (wokenL \/ w[2] = gen)
            /\ Emit(<<EvFire(c, k, wid, inp), EvPwake(w[2]), EvFired(c, k)>>)

NWake(c, k) ==
  /\ pc \in {"idle", "dropped", "begin"}
  /\ Fireable(c, k)
  /\ nfire < cfg.maxFire /\ nfire' = nfire + 1
  /\ StaleBudget(c, k)
  /\ NWakeEffect(c, k, FALSE)
  /\ conc' = (conc \/ pc = "begin")
  /\ quiesced' = FALSE
  /\ UNCHANGED <<cfg, rd, pc, cur, ans, alive, pend, nit, polls, handed, gen, started, final, needPoll, nspur, ninfire, seen>>

NInFire(c, k) ==
  /\ pc = "inchild"
  /\ Fireable(c, k)
  /\ ninfire < cfg.maxInFire /\ ninfire' = ninfire + 1
  /\ StaleBudget(c, k)
  /\ NWakeEffect(c, k, TRUE)
  /\ UNCHANGED <<cfg, rd, pc, cur, ans, alive, pend, nit, polls, handed, gen, started, final, needPoll, nfire, nspur, seen, conc, quiesced>>

NThreadWake(c, k) ==
  /\ pc = "scan" /\ cfg.threads
  /\ Fireable(c, k) /\ k = polls[c] - 1
  /\ nfire < cfg.maxFire /\ nfire' = nfire + 1
  /\ NWakeEffect(c, k, TRUE)
  /\ conc' = TRUE
  /\ UNCHANGED <<cfg, rd, pc, cur, ans, alive, pend, nit, polls, handed, gen, started, final, needPoll, nstale, nspur, ninfire, seen, quiesced>>

NWakes == \E c \in Ch : \E k \in 0..(polls[c] - 1) : NWake(c, k) \/ NInFire(c, k) \/ NThreadWake(c, k)

NOwedWake(c) ==
  /\ pc = "idle" /\ c \in Owed
  /\ NWakeEffect(c, polls[c] - 1, FALSE)
  /\ quiesced' = FALSE
  /\ UNCHANGED <<cfg, rd, pc, cur, ans, alive, pend, nit, polls, handed, gen, started, final, needPoll,
                 nfire, nstale, nspur, ninfire, seen, conc>>

---------------------------------------------------------------------------
(* Drop of the race future: its Vec of arms in order.  Arm 0: PinnedDrop of the inner join (initialised outputs, *)
(* then pending leaves; nothing if its outputs were handed out).  Arm 1: the leaf, whether or not it resolved.   *)
InnerDropEvents ==
  MapSeq(SelectSeq(<<0, 1>>, LAMBDA i : fs.ist[i] = "R"), LAMBDA i : EvVdrop(fs.iout[i]))
  \o MapSeq(SelectSeq(<<0, 1>>, LAMBDA i : fs.ist[i] = "P"), LAMBDA i : EvCdrop(i))
DropEvents == InnerDropEvents \o <<EvCdrop(2)>>
Drop == DropWith(DropEvents)
ChildPanic == PanicWith(DropEvents)

Next == Poll \/ PollReuse \/ NWakes \/ Quiesce \/ Finish \/ PollBegin \/ ScanStep \/ ChildAnswer \/ ChildPanic \/ Drop
NextLive == Next \/ \E c \in Ch : NOwedWake(c)
Spec == Init /\ [][Next]_vars
LiveSpec == Init /\ [][NextLive]_vars
            /\ WF_vars(Poll /\ (~started \/ wokenL)) /\ WF_vars(PollBegin) /\ WF_vars(ScanStep) /\ WF_vars(ChildAnswer)
            /\ \A c \in 0..2 : WF_vars(NOwedWake(c))

---------------------------------------------------------------------------
TypeOK == /\ EnvTypeOK
          /\ fs.ipend = Cardinality({i \in InnerKids : fs.ist[i] = "P"}) \/ fs.iconsumed
          /\ fs.ooffset \in 0..1
InnerCount == Sub => fs.ird.count = Cardinality({i \in InnerKids : fs.ird.bits[i]})
\* while the race is parked the inner join's registration is the caller's latest waker: a wake-up of an inner leaf
\* whose bit is clear reaches the task that polled last
InnerParentLatest == (pc = "idle" /\ started /\ ~final) => fs.ird.parent = <<"p", gen>>
\* the loser is never polled again: once the race is decided no leaf poll is in progress or starts
Decided == fs.odone => pc \in {"idle", "dropped", "end", "repolled"}
\* cancellation keeps the ledger: a collected inner output is still owned by the inner join until the drop
InnerOwned == (fs.odone /\ ~fs.iconsumed /\ pc = "idle") => \A i \in InnerKids : (fs.ist[i] = "R") <=> ~alive[i]
\* liveness: the race resolves if one arm can (arm 1 can unless c2 never completes; arm 0 unless c0 or c1 never does)
Resolves == ((2 \notin NeverSet \/ (0 \notin NeverSet /\ 1 \notin NeverSet)) /\ ~cfg.drop /\ ~cfg.panic) => <>(final)
=============================================================================
