---------------------------- MODULE MC_NestMG ----------------------------
EXTENDS NestMG, Json

B(rec, mp, mit, mf, ms, sp, mi, dr, pa, th) ==
  [rec |-> rec, maxPend |-> mp, maxItems |-> mit, maxFire |-> mf, maxStale |-> ms, maxSpur |-> sp, maxInFire |-> mi,
   drop |-> dr, panic |-> pa, threads |-> th, maxX |-> 0]

Mk(feat, never, b) ==
  [fam |-> "nest_merge_groups", cont |-> "x", n |-> 3, feat |-> feat, sub |-> feat = "std", rdy |-> TRUE, stream |-> TRUE,
   fallible |-> FALSE, group |-> FALSE, never |-> never, x |-> -1, conts |-> <<"x">>] @@ b

Feats == {"std", "alloc"}
CfgsQuick ==
  {Mk(f, <<>>, B(FALSE, 1, 1, 1, 1, 0, 1, TRUE, TRUE, FALSE)) : f \in Feats}
  \cup {Mk("std", <<>>, B(FALSE, 1, 1, 1, 0, 0, 0, FALSE, FALSE, TRUE))}
  \cup {Mk(f, nv, B(FALSE, 1, 1, 1, 0, 0, 1, FALSE, FALSE, FALSE)) : f \in Feats, nv \in {<<0>>, <<2>>}}
  \cup {[reuse |-> TRUE, repoll |-> TRUE] @@ Mk(f, <<>>, B(FALSE, 1, 1, 1, 0, 1, 0, FALSE, FALSE, FALSE)) : f \in Feats}
CfgsThorough == CfgsQuick \cup {Mk(f, <<>>, B(FALSE, 1, 1, 2, 1, 1, 1, TRUE, TRUE, TRUE)) : f \in Feats}
                \cup {Mk(f, nv, B(FALSE, 1, 2, 2, 1, 1, 1, TRUE, TRUE, TRUE)) : f \in Feats, nv \in {<<>>, <<1>>}}
CfgsGenQ ==
  {Mk(f, <<>>, B(TRUE, 1, 1, 1, 0, 0, 0, TRUE, FALSE, FALSE)) : f \in Feats}
  \cup {Mk(f, <<0>>, B(TRUE, 1, 1, 1, 0, 0, 1, FALSE, FALSE, FALSE)) : f \in Feats}
CfgsGen == {Mk(f, nv, B(TRUE, 1, 2, 2, 1, 1, 1, TRUE, TRUE, FALSE)) : f \in Feats, nv \in {<<>>, <<2>>}}
CfgsLiveQ == {Mk(f, <<>>, B(FALSE, 1, 1, 1, 0, 0, 0, FALSE, FALSE, FALSE)) : f \in Feats}
CfgsLive == {Mk(f, <<>>, B(FALSE, 1, 1, 1, 1, 1, 1, FALSE, FALSE, FALSE)) : f \in Feats}

ExportOK == ExportEnd => PrintT("VEC " \o ToJson([cfg |-> cfg, hist |-> hist']))
=============================================================================
