SPECIFICATION Spec
CONSTANT Cfgs <- CfgsGenQ
INVARIANT MonitorsQuiet ReadinessCount
VIEW view
ACTION_CONSTRAINT ExportOK
CHECK_DEADLOCK FALSE
