SPECIFICATION Spec
CONSTANT Cfgs <- CfgsThorough
INVARIANT MonitorsQuiet Counts Chained Rearmed TypeOK
CHECK_DEADLOCK FALSE
