SPECIFICATION Spec
CONSTANT Cfgs <- CfgsThorough
INVARIANT MonitorsQuiet ReadinessCount ParentPresent ParentLatest SetView FreshReady TypeOK
CHECK_DEADLOCK FALSE
