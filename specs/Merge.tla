------------------------------- MODULE Merge -------------------------------
(***************************************************************************)
(* Implementation-shaped (L2) specification of merge over arrays, Vecs and *)
(* tuples: src/stream/merge/{array,vec,tuple}.rs + utils/indexer.rs +      *)
(* utils/wakers.  The three containers have the same shape (tuple arity 0  *)
(* is the stateless Merge0; arrays/Vecs of length 0 return None before     *)
(* touching the indexer).                                                  *)
(*                                                                         *)
(* fs: st (PollState per input: "P" pending | "N" none = ended),           *)
(*     complete, offset (Indexer), order (indices still to visit)          *)
(* Deliberate deviation kept as the code has it: the `done` field is never *)
(* set, the stream is not fused.                                           *)
(***************************************************************************)
EXTENDS L2Env

FsInit(c) == [st |-> [i \in 0..(c.n - 1) |-> "P"], complete |-> 0, offset |-> 0, order |-> <<>>]
InitFor(c) == InitEnv(c, c.n, FsInit(c))
Init == \E c \in Cfgs : InitFor(c)

Rotated(off) == [k \in 1..N |-> (k - 1 + off) % N]

(* poll_next: lock; set_waker; Indexer::iter (merge/array.rs:62-75) *)
PollBegin ==
  /\ pc = "begin"
  /\ IF N = 0
       THEN /\ Ret("none") /\ Emit(<<EvRet("none", TRUE, -1, <<>>, -1)>>)
            /\ UNCHANGED <<fs, rd>>
       ELSE /\ rd' = RSetWaker(rd, gen)
            /\ fs' = [fs EXCEPT !.order = Rotated(fs.offset), !.offset = (fs.offset + 1) % N]
            /\ pc' = "scan" /\ NoRet /\ Emit(<<>>)
  /\ UNCHANGED <<cfg, cur, ans, alive, pend, nit, polls, handed, firedL, gen, wokenL, started,
                 nfire, nstale, nspur, ninfire, seen, conc, quiesced>>

(* one iteration: any_ready early-out; clear_ready(index) (always evaluated) and the state test;      *)
(* unlock; hand the sub-waker to the input  (merge/array.rs:76-89)                                     *)
ScanStep ==
  /\ pc = "scan"
  /\ IF fs.order = <<>> \/ ~RAny(rd)
       THEN /\ Ret("pending") /\ Emit(<<EvRet("pending", TRUE, -1, <<>>, -1)>>)
            /\ UNCHANGED <<fs, rd, cur, handV>>
       ELSE LET i == Head(fs.order)
                old == RClearOld(rd, i) IN
            /\ rd' = RClear(rd, i)
            /\ IF ~old \/ fs.st[i] = "N"
                 THEN /\ fs' = [fs EXCEPT !.order = Tail(@)]
                      /\ pc' = "scan" /\ NoRet /\ Emit(<<>>) /\ UNCHANGED <<cur, handV>>
                 ELSE /\ HandOut(i, WakerFor(i))
                      /\ Emit(<<CpollEv(i, WakerFor(i))>>) /\ NoRet /\ UNCHANGED fs
  /\ UNCHANGED <<cfg, ans, alive, pend, nit, gen, wokenL, started, nfire, nstale, nspur, ninfire, conc, quiesced>>

(* the input answers (merge/array.rs:90-104) *)
ChildAnswer ==
  /\ pc = "inchild"
  /\ \E a \in Answers(cur, TRUE) :
       LET c == cur IN
       /\ ChildSays(c, a)
       /\ CASE a.r = "pending" ->
                 /\ fs' = [fs EXCEPT !.order = Tail(@)]
                 /\ pc' = "scan" /\ NoRet /\ UNCHANGED rd
                 /\ Emit(<<CretEv(c, a)>>)
            [] a.r = "some" ->
                 \* re-arm: this input has to be polled again for its next item (the returned old bit is
                 \* ignored: the parent is not woken, the consumer polls again on its own)
                 /\ rd' = RSet(rd, c)
                 /\ Ret("some") /\ UNCHANGED fs
                 /\ Emit(<<CretEv(c, a), EvRet("some", TRUE, Val(c), <<>>, -1)>>)
            [] a.r = "none" ->
                 /\ UNCHANGED rd
                 /\ IF fs.complete + 1 = N
                      THEN /\ fs' = [fs EXCEPT !.complete = @ + 1, !.st[c] = "N"]
                           /\ Ret("none")
                           /\ Emit(<<CretEv(c, a), EvRet("none", TRUE, -1, <<>>, -1)>>)
                      ELSE /\ fs' = [fs EXCEPT !.complete = @ + 1, !.st[c] = "N", !.order = Tail(@)]
                           /\ pc' = "scan" /\ NoRet
                           /\ Emit(<<CretEv(c, a)>>)
  /\ UNCHANGED <<cfg, cur, alive, polls, handed, firedL, gen, wokenL, started, nfire, nstale, nspur, ninfire, seen, conc, quiesced>>

DropEvents == MapSeq(UpTo(N), LAMBDA i : EvCdrop(i))
Drop == DropWith(DropEvents)
ChildPanic == PanicWith(DropEvents)

\* merge has no assertion: every input's state is None, nothing is polled, the answer is Pending (zero inputs: None)
Repoll == RepollAnswers(IF N = 0 THEN "none" ELSE "pending")
Next == EnvNext \/ PollBegin \/ ScanStep \/ ChildAnswer \/ ChildPanic \/ Drop \/ Repoll
NextLive == Next \/ \E c \in Ch : OwedWake(c)
Spec == Init /\ [][Next]_vars
LiveSpec == Init /\ [][NextLive]_vars
            /\ WF_vars(Poll /\ (~started \/ wokenL \/ needPoll)) /\ WF_vars(PollBegin) /\ WF_vars(ScanStep) /\ WF_vars(ChildAnswer)
            /\ \A c \in 0..3 : WF_vars(OwedWake(c))

---------------------------------------------------------------------------
TypeOK == /\ EnvTypeOK
          /\ fs.complete = Cardinality({i \in 0..(N - 1) : fs.st[i] = "N"})
          /\ N > 0 => fs.offset \in 0..(N - 1)
\* after a poll the stored parent waker is the one of the most recent poll
ParentLatest == (pc = "idle" /\ started /\ N > 0) => rd.parent = gen
\* an input that yielded an item is marked ready again (it is polled in the next poll although nobody woke it)
Rearmed == (Sub /\ pc = "idle") => \A c \in Ch : ans[c] = "some" => rd.bits[c]
\* liveness: the merged stream ends when no input runs for ever
Ends == (cfg.never = <<>> /\ ~cfg.drop /\ ~cfg.panic /\ cfg.x = -1) => <>(final)
=============================================================================
