SPECIFICATION LiveSpec
CONSTANT Cfgs <- CfgsLiveQ
PROPERTY Ends
CHECK_DEADLOCK FALSE
