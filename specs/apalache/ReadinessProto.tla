--------------------------- MODULE ReadinessProto ---------------------------
(***************************************************************************)
(* The core of the std sub-waker protocol (utils/wakers: ReadinessArray /   *)
(* ReadinessVec, InlineWaker::wake, and the scan loop every sub-waker        *)
(* combinator runs), abstracted from the child answers: the part of C01      *)
(* that the bounded L2 model checking cannot give for unboundedly many       *)
(* wake-ups and polls.  Checked as an INDUCTIVE invariant with Apalache      *)
(* (IndInv holds initially and is preserved by every step, so it holds in    *)
(* every reachable state whatever the number of polls, wake-ups and          *)
(* spurious polls), for N <= MaxN children.                                  *)
(*                                                                           *)
(*   bits, count   the readiness list and its counter                        *)
(*   parent        generation of the stored parent waker (-1 = None)         *)
(*   gen           generation of the caller's latest waker (-1 = not polled) *)
(*   woken         the latest waker has been invoked since the latest poll   *)
(*                 began                                                     *)
(*   pc, idx       "idle" | "scan" and the scan position                     *)
(*   early         the variant: early-out inside the loop when nothing is    *)
(*                 ready (tuple join, merge, zip) or only before it (array)  *)
(*   needPoll      the consumer is about to poll again on its own: the last  *)
(*                 poll returned an item (merge / StreamGroup re-arm the     *)
(*                 input's bit without waking anybody; zip sets all bits     *)
(*                 after a row) or the owner just inserted into a group      *)
(***************************************************************************)
EXTENDS Integers, FiniteSets

CONSTANTS
  \* @type: Int;
  N,
  \* @type: Bool;
  Early

VARIABLES
  \* @type: Int -> Bool;
  bits,
  \* @type: Int;
  count,
  \* @type: Int;
  parent,
  \* @type: Int;
  gen,
  \* @type: Bool;
  woken,
  \* @type: Str;
  pc,
  \* @type: Int;
  idx,
  \* @type: Bool;
  needPoll

MaxN == 5
All == 0..4                       \* (Apalache wants constant ranges: slots >= N exist but are never used)
Ch == {i \in All : i < N}

CInit == N \in 1..MaxN /\ Early \in BOOLEAN

Init ==
  /\ bits = [i \in All |-> i < N]
  /\ count = N
  /\ parent = -1 /\ gen = -1 /\ woken = FALSE
  /\ pc = "idle" /\ idx = 0 /\ needPoll = FALSE

\* poll(): set_waker(cx.waker()); `!any_ready()` early-out; else scan from the first child
PollBegin ==
  /\ pc = "idle"
  /\ gen' = gen + 1 /\ parent' = gen + 1 /\ woken' = FALSE /\ needPoll' = FALSE
  /\ IF count = 0 THEN pc' = "idle" /\ idx' = idx ELSE pc' = "scan" /\ idx' = 0
  /\ UNCHANGED <<bits, count>>

\* one loop iteration: clear_ready(idx) (the child is polled iff the bit was set; what it answers does not
\* matter here: a child that wants to be polled again invokes its waker, which is the Wake action)
ScanStep ==
  /\ pc = "scan" /\ idx < N
  /\ ~(Early /\ count = 0)
  /\ bits' = [bits EXCEPT ![idx] = FALSE]
  /\ count' = IF bits[idx] THEN count - 1 ELSE count
  /\ idx' = idx + 1
  /\ UNCHANGED <<parent, gen, woken, pc, needPoll>>

\* the child polled at idx yields an item (merge, StreamGroup): its bit is set again without waking the parent,
\* the poll returns the item, the consumer polls again
YieldItem ==
  /\ pc = "scan" /\ idx < N /\ bits[idx]
  /\ ~(Early /\ count = 0)
  /\ pc' = "idle" /\ needPoll' = TRUE
  /\ UNCHANGED <<bits, count, parent, gen, woken, idx>>

\* zip completed a row: set_all_ready, return the row
RowDone ==
  /\ pc = "scan"
  /\ bits' = [i \in All |-> i < N] /\ count' = N
  /\ pc' = "idle" /\ needPoll' = TRUE
  /\ UNCHANGED <<parent, gen, woken, idx>>

\* the owner of a group inserts a member into slot i between polls: set_ready(i) without waking anybody;
\* the owner holds `&mut` to the group, i.e. it is the consumer task and polls again
Insert(i) ==
  /\ pc = "idle"
  /\ bits' = [bits EXCEPT ![i] = TRUE]
  /\ count' = IF bits[i] THEN count ELSE count + 1
  /\ needPoll' = TRUE
  /\ UNCHANGED <<parent, gen, woken, pc, idx>>

\* end of the loop, or the in-loop early-out: Poll::Pending
ScanEnd ==
  /\ pc = "scan" /\ (idx = N \/ (Early /\ count = 0))
  /\ pc' = "idle"
  /\ UNCHANGED <<bits, count, parent, gen, woken, idx, needPoll>>

\* InlineWaker::wake for child i (any waker ever handed out: they all share the child's id), from any thread,
\* at any time after the first poll: set_ready(i); if the bit was clear, wake the stored parent waker
Wake(i) ==
  /\ gen >= 0
  /\ IF bits[i]
       THEN UNCHANGED <<bits, count, woken>>
       ELSE /\ bits' = [bits EXCEPT ![i] = TRUE]
            /\ count' = count + 1
            /\ woken' = (woken \/ parent = gen)
  /\ UNCHANGED <<parent, gen, pc, idx, needPoll>>

Next == PollBegin \/ ScanStep \/ ScanEnd \/ YieldItem \/ RowDone \/ (\E i \in Ch : Wake(i)) \/ (\E i \in Ch : Insert(i))

---------------------------------------------------------------------------
SetBits == {i \in All : bits[i]}

TypeOK ==
  /\ bits \in [All -> BOOLEAN] /\ \A i \in All : i >= N => ~bits[i]
  /\ count \in 0..5 /\ count <= N
  /\ gen \in Int /\ gen >= -1 /\ parent \in Int /\ parent >= -1
  /\ woken \in BOOLEAN
  /\ pc \in {"idle", "scan"}
  /\ idx \in 0..5 /\ idx <= N
  /\ needPoll \in BOOLEAN

\* C01, core: whenever the combinator is parked (or has passed child i in its scan) and i's readiness bit is
\* set - i.e. i's waker fired after i was last looked at - the waker of the most recent poll has been invoked
\* (unless the consumer is about to poll again anyway: needPoll)
NoLostWake == (gen >= 0 /\ ~needPoll) => \A i \in Ch : (bits[i] /\ (pc = "idle" \/ i < idx)) => woken

IndInv ==
  /\ TypeOK
  /\ count = Cardinality(SetBits)
  /\ (gen >= 0 => parent = gen) /\ (gen = -1 => parent = -1 /\ pc = "idle" /\ ~woken)
  /\ (pc = "scan" => ~needPoll)
  /\ NoLostWake

\* the initial predicate of the inductive-step check: any state satisfying IndInv
IndInit == IndInv
=============================================================================
