------------------------------- MODULE MC_Zip -------------------------------
EXTENDS Zip, Json

B(rec, mp, mi, mf, ms, sp, mif, dr, pa, th) ==
  [rec |-> rec, maxPend |-> mp, maxItems |-> mi, maxFire |-> mf, maxStale |-> ms, maxSpur |-> sp, maxInFire |-> mif,
   drop |-> dr, panic |-> pa, threads |-> th]

Mk(n, feat, never, b) ==
  [fam |-> "zip", cont |-> "arr", n |-> n, feat |-> feat, sub |-> feat = "std", rdy |-> TRUE, stream |-> TRUE,
   fallible |-> FALSE, group |-> FALSE, never |-> never, x |-> -1, conts |-> <<"arr", "vec", "tup">>] @@ b

Feats == {"std", "alloc"}

CfgsQuick ==
  {[repoll |-> TRUE] @@ Mk(2, f, <<>>, B(FALSE, 1, 1, 1, 0, 0, 0, FALSE, FALSE, FALSE)) : f \in Feats} \cup
  {[reuse |-> TRUE] @@ Mk(2, f, <<>>, B(FALSE, 1, 1, 1, 0, 1, 0, FALSE, FALSE, FALSE)) : f \in Feats} \cup
  {Mk(2, f, <<>>, B(FALSE, 1, 2, 2, 1, 1, 1, TRUE, TRUE, TRUE)) : f \in Feats}
  \cup {Mk(2, f, <<1>>, B(FALSE, 1, 1, 2, 1, 1, 1, FALSE, FALSE, FALSE)) : f \in Feats}
  \cup {Mk(3, "std", <<>>, B(FALSE, 1, 1, 1, 0, 1, 1, FALSE, FALSE, FALSE))}
  \cup {Mk(1, f, <<>>, B(FALSE, 1, 2, 1, 0, 1, 1, TRUE, FALSE, FALSE)) : f \in Feats}

CfgsThorough ==
  CfgsQuick \cup
  {Mk(2, f, nv, B(FALSE, 2, 2, 3, 1, 1, 2, TRUE, TRUE, TRUE)) : f \in Feats, nv \in {<<>>, <<0>>}}
  \cup {Mk(3, f, nv, B(FALSE, 1, 2, 2, 1, 1, 1, TRUE, FALSE, FALSE)) : f \in Feats, nv \in {<<>>, <<1>>}}
  \cup {Mk(4, "std", <<>>, B(FALSE, 1, 1, 1, 0, 1, 0, FALSE, FALSE, FALSE))}

CfgsGenQ ==
  {Mk(2, f, <<>>, B(TRUE, 1, 1, 2, 1, 1, 1, TRUE, TRUE, FALSE)) : f \in Feats}
  \cup {Mk(2, f, <<0>>, B(TRUE, 1, 1, 1, 0, 0, 1, FALSE, FALSE, FALSE)) : f \in Feats}
  \cup {Mk(1, f, <<>>, B(TRUE, 1, 2, 1, 0, 1, 1, TRUE, FALSE, FALSE)) : f \in Feats}

CfgsGen ==
  {Mk(2, f, <<>>, B(TRUE, 1, 2, 2, 1, 1, 1, TRUE, TRUE, FALSE)) : f \in Feats}
  \cup {Mk(3, f, <<>>, B(TRUE, 1, 1, 2, 1, 1, 1, TRUE, FALSE, FALSE)) : f \in Feats}
  \cup {Mk(2, f, <<0>>, B(TRUE, 1, 1, 2, 0, 1, 1, FALSE, FALSE, FALSE)) : f \in Feats}
  \cup {Mk(1, f, <<>>, B(TRUE, 1, 2, 1, 0, 1, 1, TRUE, FALSE, FALSE)) : f \in Feats}

CfgsLiveQ == {Mk(2, f, <<>>, B(FALSE, 1, 1, 1, 1, 1, 1, FALSE, FALSE, FALSE)) : f \in Feats}
CfgsLive == {Mk(n, f, <<>>, B(FALSE, 1, 2, 1, 1, 1, 1, FALSE, FALSE, FALSE)) : f \in Feats, n \in {2, 3}}

ExportOK == ExportEnd => PrintT("VEC " \o ToJson([cfg |-> cfg, hist |-> hist']))
=============================================================================
