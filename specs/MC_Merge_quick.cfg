SPECIFICATION Spec
CONSTANT Cfgs <- CfgsQuick
INVARIANT MonitorsQuiet ReadinessCount ParentPresent ParentLatest Rearmed TypeOK
CHECK_DEADLOCK FALSE
