SPECIFICATION Spec
CONSTANT Cfgs <- CfgsThorough
INVARIANT MonitorsQuiet TypeOK ErrSlots
CHECK_DEADLOCK FALSE
