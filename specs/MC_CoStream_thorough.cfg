SPECIFICATION Spec
CONSTANT Cfgs <- CfgsThorough
INVARIANT MonitorsQuiet ReadinessCount WithinLimit TypeOK
CHECK_DEADLOCK FALSE
