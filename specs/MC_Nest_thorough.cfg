SPECIFICATION Spec
CONSTANT Cfgs <- CfgsThorough
INVARIANT MonitorsQuiet ReadinessCount InnerCount Chained TypeOK
CHECK_DEADLOCK FALSE
