SPECIFICATION Spec
CONSTANT Cfgs <- CfgsQuick
INVARIANT MonitorsQuiet ReadinessCount ParentPresent ParentLatest RowRearm TypeOK
CHECK_DEADLOCK FALSE
