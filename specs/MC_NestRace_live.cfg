SPECIFICATION LiveSpec
CONSTANT Cfgs <- CfgsLive
PROPERTY Resolves
CHECK_DEADLOCK FALSE
