----------------------------- MODULE NestProof -----------------------------
(***************************************************************************)
(* C01 for a nest of combinators, protocol core, arbitrary N (TLAPS).      *)
(* An outer sub-waker combinator polls an inner one (N children) through   *)
(* its slot `obit`; the inner combinator stores the outer slot's waker as  *)
(* its parent.  A child's wake-up sets the inner bit and, if it was clear, *)
(* invokes the outer slot's waker, which sets `obit` and, if that was      *)
(* clear, wakes the caller's latest waker (cf. specs/Nest.tla, which is    *)
(* the implementation-shaped, model-checked version for join in join).     *)
(* Proved: whenever both levels are parked, a set inner bit implies a set  *)
(* outer bit, and a set outer bit implies that the waker of the most       *)
(* recent poll of the outer combinator has been invoked.                   *)
(***************************************************************************)
EXTENDS Integers, TLAPS

CONSTANT N
ASSUME NAssump == N \in Nat /\ N >= 1

VARIABLES ibits, obit, parent, gen, woken, pc, idx
vars == <<ibits, obit, parent, gen, woken, pc, idx>>
Ch == 0..(N - 1)

Init ==
  /\ ibits = [i \in Ch |-> TRUE] /\ obit = TRUE
  /\ parent = -1 /\ gen = -1 /\ woken = FALSE
  /\ pc = "idle" /\ idx = 0

\* outer poll: set_waker; the inner combinator's slot is looked at first: clear it and poll the inner one
PollBegin ==
  /\ pc = "idle"
  /\ gen' = gen + 1 /\ parent' = gen + 1 /\ woken' = FALSE
  /\ IF obit THEN obit' = FALSE /\ pc' = "inner" /\ idx' = 0
             ELSE obit' = obit /\ pc' = "idle" /\ idx' = idx
  /\ UNCHANGED ibits

\* inner scan: clear_ready(idx), poll the child if the bit was set
InnerStep ==
  /\ pc = "inner" /\ idx < N
  /\ ibits' = [ibits EXCEPT ![idx] = FALSE]
  /\ idx' = idx + 1
  /\ UNCHANGED <<obit, parent, gen, woken, pc>>

InnerEnd ==
  /\ pc = "inner" /\ idx = N
  /\ pc' = "idle"
  /\ UNCHANGED <<ibits, obit, parent, gen, woken, idx>>

\* a child of the inner combinator invokes its waker (any waker ever handed to it), from any thread, any time
Wake(i) ==
  /\ gen >= 0
  /\ IF ibits[i]
       THEN UNCHANGED <<ibits, obit, woken>>
       ELSE /\ ibits' = [ibits EXCEPT ![i] = TRUE]
            /\ IF obit THEN UNCHANGED <<obit, woken>>
                       ELSE obit' = TRUE /\ woken' = (woken \/ parent = gen)
  /\ UNCHANGED <<parent, gen, pc, idx>>

Next == PollBegin \/ InnerStep \/ InnerEnd \/ \E i \in Ch : Wake(i)
Spec == Init /\ [][Next]_vars

TypeOK ==
  /\ ibits \in [Ch -> BOOLEAN] /\ obit \in BOOLEAN
  /\ gen \in Int /\ gen >= -1 /\ parent \in Int
  /\ woken \in BOOLEAN /\ pc \in {"idle", "inner"} /\ idx \in 0..N

\* inner level: a set bit of a child the inner scan has passed (any set bit while the inner one is parked) has
\* reached the outer slot;  outer level: a set slot has reached the caller
InnerReachesOuter == gen >= 0 => \A i \in Ch : (ibits[i] /\ (pc = "idle" \/ i < idx)) => obit
OuterReachesCaller == (gen >= 0 /\ obit) => woken
NoLostWakeNested == InnerReachesOuter /\ OuterReachesCaller

IndInv ==
  /\ TypeOK
  /\ (gen >= 0 => parent = gen)
  /\ (gen = -1 => pc = "idle" /\ obit)
  /\ NoLostWakeNested

THEOREM InitInv == Init => IndInv
  BY NAssump DEF Init, IndInv, TypeOK, NoLostWakeNested, InnerReachesOuter, OuterReachesCaller, Ch

THEOREM StepInv == IndInv /\ [Next]_vars => IndInv'
<1> SUFFICES ASSUME IndInv, [Next]_vars PROVE IndInv'
  OBVIOUS
<1> USE NAssump DEF IndInv, TypeOK, NoLostWakeNested, InnerReachesOuter, OuterReachesCaller, Ch
<1>1. CASE PollBegin
  BY <1>1 DEF PollBegin
<1>2. CASE InnerStep
  BY <1>2 DEF InnerStep
<1>3. CASE InnerEnd
  BY <1>3 DEF InnerEnd
<1>4. CASE \E i \in Ch : Wake(i)
  BY <1>4 DEF Wake
<1>5. CASE UNCHANGED vars
  BY <1>5 DEF vars
<1> QED
  BY <1>1, <1>2, <1>3, <1>4, <1>5 DEF Next

THEOREM Safety == Spec => []NoLostWakeNested
<1>1. Init => IndInv
  BY InitInv
<1>2. IndInv /\ [Next]_vars => IndInv'
  BY StepInv
<1>3. IndInv => NoLostWakeNested
  BY DEF IndInv
<1> QED
  BY <1>1, <1>2, <1>3, PTL DEF Spec
=============================================================================
