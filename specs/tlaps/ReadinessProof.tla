--------------------------- MODULE ReadinessProof ---------------------------
(***************************************************************************)
(* The no-lost-wake-up core of the std sub-waker protocol, as in           *)
(* ../apalache/ReadinessProto.tla but for an ARBITRARY number N of         *)
(* children, proved with TLAPS (tlapm): IndInv is inductive, hence         *)
(* NoLostWake holds in every reachable state.  The ready counter is        *)
(* abstracted to "some bit is set" (it is only an optimisation of that     *)
(* test; count = |bits| is checked by TLC / Apalache).                     *)
(***************************************************************************)
EXTENDS Integers, TLAPS

CONSTANTS N, Early
ASSUME NAssump == N \in Nat /\ N >= 1
ASSUME EarlyAssump == Early \in BOOLEAN

VARIABLES bits, parent, gen, woken, pc, idx, needPoll
vars == <<bits, parent, gen, woken, pc, idx, needPoll>>

Ch == 0..(N - 1)
AnyReady == \E i \in Ch : bits[i]

Init ==
  /\ bits = [i \in Ch |-> TRUE]
  /\ parent = -1 /\ gen = -1 /\ woken = FALSE
  /\ pc = "idle" /\ idx = 0 /\ needPoll = FALSE

PollBegin ==
  /\ pc = "idle"
  /\ gen' = gen + 1 /\ parent' = gen + 1 /\ woken' = FALSE /\ needPoll' = FALSE
  /\ IF ~AnyReady THEN pc' = "idle" /\ idx' = idx ELSE pc' = "scan" /\ idx' = 0
  /\ UNCHANGED bits

ScanStep ==
  /\ pc = "scan" /\ idx < N
  /\ ~(Early /\ ~AnyReady)
  /\ bits' = [bits EXCEPT ![idx] = FALSE]
  /\ idx' = idx + 1
  /\ UNCHANGED <<parent, gen, woken, pc, needPoll>>

YieldItem ==
  /\ pc = "scan" /\ idx < N /\ bits[idx]
  /\ pc' = "idle" /\ needPoll' = TRUE
  /\ UNCHANGED <<bits, parent, gen, woken, idx>>

RowDone ==
  /\ pc = "scan"
  /\ bits' = [i \in Ch |-> TRUE]
  /\ pc' = "idle" /\ needPoll' = TRUE
  /\ UNCHANGED <<parent, gen, woken, idx>>

ScanEnd ==
  /\ pc = "scan" /\ (idx = N \/ (Early /\ ~AnyReady))
  /\ pc' = "idle"
  /\ UNCHANGED <<bits, parent, gen, woken, idx, needPoll>>

Insert(i) ==
  /\ pc = "idle"
  /\ bits' = [bits EXCEPT ![i] = TRUE]
  /\ needPoll' = TRUE
  /\ UNCHANGED <<parent, gen, woken, pc, idx>>

Wake(i) ==
  /\ gen >= 0
  /\ IF bits[i]
       THEN UNCHANGED <<bits, woken>>
       ELSE /\ bits' = [bits EXCEPT ![i] = TRUE]
            /\ woken' = (woken \/ parent = gen)
  /\ UNCHANGED <<parent, gen, pc, idx, needPoll>>

Next == PollBegin \/ ScanStep \/ ScanEnd \/ YieldItem \/ RowDone \/ (\E i \in Ch : Wake(i)) \/ (\E i \in Ch : Insert(i))
Spec == Init /\ [][Next]_vars

TypeOK ==
  /\ bits \in [Ch -> BOOLEAN]
  /\ gen \in Int /\ gen >= -1 /\ parent \in Int
  /\ woken \in BOOLEAN /\ needPoll \in BOOLEAN
  /\ pc \in {"idle", "scan"}
  /\ idx \in 0..N

NoLostWake == (gen >= 0 /\ ~needPoll) => \A i \in Ch : (bits[i] /\ (pc = "idle" \/ i < idx)) => woken

IndInv ==
  /\ TypeOK
  /\ (gen >= 0 => parent = gen)
  /\ (gen = -1 => pc = "idle")
  /\ (pc = "scan" => ~needPoll)
  /\ NoLostWake

THEOREM InitInv == Init => IndInv
  BY NAssump DEF Init, IndInv, TypeOK, NoLostWake, Ch

THEOREM StepInv == IndInv /\ [Next]_vars => IndInv'
<1> SUFFICES ASSUME IndInv, [Next]_vars PROVE IndInv'
  OBVIOUS
<1> USE NAssump, EarlyAssump DEF IndInv, TypeOK, NoLostWake, Ch, AnyReady
<1>1. CASE PollBegin
  BY <1>1 DEF PollBegin
<1>2. CASE ScanStep
  BY <1>2 DEF ScanStep
<1>3. CASE ScanEnd
  BY <1>3 DEF ScanEnd
<1>4. CASE YieldItem
  BY <1>4 DEF YieldItem
<1>5. CASE RowDone
  BY <1>5 DEF RowDone
<1>6. CASE \E i \in Ch : Wake(i)
  BY <1>6 DEF Wake
<1>7. CASE \E i \in Ch : Insert(i)
  BY <1>7 DEF Insert
<1>8. CASE UNCHANGED vars
  BY <1>8 DEF vars
<1> QED
  BY <1>1, <1>2, <1>3, <1>4, <1>5, <1>6, <1>7, <1>8 DEF Next

THEOREM Safety == Spec => []NoLostWake
<1>1. Init => IndInv
  BY InitInv
<1>2. IndInv /\ [Next]_vars => IndInv'
  BY StepInv
<1>3. IndInv => NoLostWake
  BY DEF IndInv
<1> QED
  BY <1>1, <1>2, <1>3, PTL DEF Spec
=============================================================================
