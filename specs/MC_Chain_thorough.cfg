SPECIFICATION Spec
CONSTANT Cfgs <- CfgsThorough
INVARIANT MonitorsQuiet Sequential TypeOK
CHECK_DEADLOCK FALSE
