------------------------------ MODULE CoStream ------------------------------
(***************************************************************************)
(* Implementation-shaped (L2) specification of the concurrent-stream       *)
(* driver and its consumers:                                               *)
(*   FromStream::drive            src/concurrent_stream/from_stream.rs     *)
(*   ForEachConsumer / ForEachFut src/concurrent_stream/for_each.rs        *)
(*   TryForEachConsumer           src/concurrent_stream/try_for_each.rs    *)
(*   VecConsumer/ResultVecConsumer src/concurrent_stream/from_concurrent_stream.rs *)
(*   Map / Enumerate / Take / Limit adapters (map.rs, enumerate.rs,        *)
(*   take.rs, limit.rs), Vec::into_co_stream (collections/vec.rs)          *)
(*                                                                         *)
(* cfg: cont "co" (a stream that may pend) | "vec" (cfg.n items handed in),*)
(*      stack (adapters, innermost first: [k |-> "map"|"enumerate"|"take"| *)
(*      "limit", n]), term ("for_each"|"try_for_each"|"collect"|           *)
(*      "collect_result"), limit (effective concurrency limit, 0 = none)   *)
(*                                                                         *)
(* Child 0 is the source stream (polled with the caller's waker through    *)
(* the two-armed race of `drive`); children 1.. are the futures returned   *)
(* by the user closures, numbered in creation order.  A group member is    *)
(* the pipeline of one item through the closure layers (map layers, then   *)
(* the terminal closure).                                                  *)
(*                                                                         *)
(* Third-party futures_buffered::FuturesUnordered is specified abstractly: *)
(* it keeps one wake flag per member and the waker of the latest poll      *)
(* (the readiness record rd: waking a member sets its flag and, if it was  *)
(* clear, wakes that waker); `next()` polls flagged members, in any order, *)
(* until one completes.  Trace validation (Trace_CoStream) resolves the    *)
(* order from the recorded execution.                                      *)
(***************************************************************************)
EXTENDS L2Env

Stack == cfg.stack
Term == cfg.term
SrcVec == cfg.cont = "vec"
Limited == Term \in {"for_each", "try_for_each"} /\ cfg.limit > 0
Counted == Term \in {"for_each", "try_for_each"}

Positions == [i \in 1..Len(Stack) |-> i]
MapPos == SelectSeq(Positions, LAMBDA i : Stack[i].k = "map")
NMaps == Len(MapPos)
HasTerm == Term \in {"for_each", "try_for_each", "collect_result"}
NLayers == NMaps + (IF HasTerm THEN 1 ELSE 0)
LayerId(j) == IF j <= NMaps THEN j - 1 ELSE -1
LayerPos(j) == IF j <= NMaps THEN MapPos[j] ELSE Len(Stack) + 1
SetMax(S) == CHOOSE x \in S : \A y \in S : y <= x
EnumsBefore(p) == {i \in 1..(p - 1) : Stack[i].k = "enumerate"}
\* an enumerate adapter (followed by the harness' index-carrying map) sits between closure layers j-1 and j
EnumBetween(j) == j > 1 /\ \E i \in (LayerPos(j - 1) + 1)..(LayerPos(j) - 1) : Stack[i].k = "enumerate"
IdxFor(j, idxs) == LET E == EnumsBefore(LayerPos(j)) IN IF E = {} THEN -1 ELSE idxs[SetMax(E)]
LayerUnit(j) == LayerId(j) = -1 /\ Term \in {"for_each", "try_for_each"}
LayerFallible(j) == LayerId(j) = -1 /\ Term \in {"try_for_each", "collect_result"}

NoItem == [v |-> -1, src |-> -1, idxs |-> <<>>, brk |-> FALSE]
NoRes == [set |-> FALSE, ok |-> TRUE, val |-> -1]

FsInit(c) ==
  [announced |-> FALSE,         \* construction done (items of a Vec source handed in, `coview` reported)
   phase |-> "race",          \* "race" | "wait" | "bp" | "flush" | "done"
   raceOff |-> 0,             \* Indexer offset of the current race instance
   todo |-> <<>>, arm |-> "none",
   srcDone |-> FALSE, srcPos |-> 0,
   mem |-> << >>,             \* slot -> [src, val, j, child, idxs]   (futures-buffered PinSlotMap: LIFO free list)
   nmem |-> 0, slen |-> 0, free |-> <<>>, lastSlot |-> -1,
   inNext |-> FALSE,          \* inside a call of FuturesUnordered::next()
   cur |-> -1,                \* the member being polled
   res |-> NoRes,            \* a member completed: [ok, val] (handled by Control)
   count |-> 0,               \* ForEach / TryForEach `count`
   cnt |-> [i \in 1..Len(c.stack) |-> 0],     \* counters of take / enumerate adapters
   residual |-> -1, outErr |-> -1, output |-> <<>>,
   hand |-> NoItem,           \* the item whose `send` waits for a free slot
   returned |-> FALSE]
InitFor(c) == InitEnv(c, 1, FsInit(c))
Init == \E c \in Cfgs : InitFor(c)

GMembers == DOMAIN fs.mem
Flagged == {mm \in GMembers : rd.bits[mm]}
TakeReached(f) == \E i \in 1..Len(Stack) : Stack[i].k = "take" /\ f.cnt[i] >= Stack[i].n
\* (trace mode: waker identities of third-party wakers are canonicalised to -7 on both sides)
CoCpoll(c, k, w) == EvCpoll(c, k, IF TraceMode THEN -7 ELSE WidIn(Seen1(w), w), IF w[1] = "p" THEN w[2] ELSE -1)

---------------------------------------------------------------------------
(* Construction.  Vec::into_co_stream: the items are handed in at construction; the harness announces them as    *)
(* answers of the (non-existent) source child.  Then the assembled concurrent stream is asked what it reports     *)
(* about itself before it is driven (`coview`): size_hint() as plumbed through the adapter stack (from_stream.rs:  *)
(* the source stream's hint; map / enumerate / limit: the inner hint unchanged; take.rs: both bounds capped at the *)
(* limit, an absent upper bound becomes the limit) and concurrency_limit() (limit.rs: its own argument, None for   *)
(* limit(0); every other adapter: the inner one; the source: None).  The source's hint is an input (cfg.srcHint =  *)
(* <<lower, upper or -1>>); nothing else may depend on it.  Deliberate deviation kept as the code has it: the      *)
(* concurrent stream of a Vec (collections/vec.rs) does not forward its inner hint and reports the trait's         *)
(* default (0, None) although its length is known.                                                                 *)
HCap(x) == IF x > 1000000 THEN 1000000 ELSE x
SrcHint == IF SrcVec THEN <<0, -1>> ELSE Opt(cfg, "srcHint", <<0, -1>>)
RECURSIVE HintThrough(_, _)
HintThrough(h, i) ==          \* the hint after the adapters Stack[i..]
  IF i > Len(Stack) THEN h
  ELSE IF Stack[i].k = "take"
         THEN LET n == Stack[i].n IN
              HintThrough(<<IF h[1] < n THEN h[1] ELSE n, IF h[2] >= 0 /\ h[2] < n THEN h[2] ELSE n>>, i + 1)
         ELSE HintThrough(h, i + 1)
RECURSIVE LimThrough(_, _)
LimThrough(l, i) == IF i > Len(Stack) THEN l ELSE LimThrough(IF Stack[i].k = "limit" THEN Stack[i].n ELSE l, i + 1)
CoViewEv == LET h == HintThrough(SrcHint, 1) IN
  [e |-> "coview", slo |-> HCap(SrcHint[1]), shi |-> HCap(SrcHint[2]), lo |-> HCap(h[1]), hi |-> HCap(h[2]), lim |-> HCap(LimThrough(0, 1))]

Announce ==
  /\ pc = "idle" /\ ~fs.announced
  /\ fs' = [fs EXCEPT !.announced = TRUE]
  /\ IF SrcVec
       THEN /\ nit' = [nit EXCEPT ![0] = N]
            /\ ans' = [ans EXCEPT ![0] = "done"]
            /\ alive' = [alive EXCEPT ![0] = FALSE]
            /\ Emit([i \in 1..N |-> EvCret(0, i - 1, "some", TRUE, i - 1)] \o <<EvCret(0, N, "none", TRUE, -1), CoViewEv>>)
       ELSE /\ UNCHANGED <<nit, ans, alive>>
            /\ Emit(<<CoViewEv>>)
  /\ UNCHANGED <<cfg, rd, pc, cur, pend, polls, handed, firedL, gen, wokenL, started, final, needPoll,
                 nfire, nstale, nspur, ninfire, seen, conc, quiesced>>

(* start of a poll of the drive future: a pending race is polled again with its rotated order *)
PollBegin ==
  /\ pc = "begin" /\ fs.announced
  /\ IF fs.phase = "race"
       THEN fs' = [fs EXCEPT !.todo = IF fs.raceOff = 0 THEN <<"b", "a">> ELSE <<"a", "b">>,
                             !.raceOff = 1 - fs.raceOff, !.arm = "none"]
       ELSE UNCHANGED fs
  /\ pc' = "scan" /\ NoRet /\ Emit(<<>>)
  /\ UNCHANGED <<cfg, rd, cur, ans, alive, pend, nit, polls, handed, firedL, gen, wokenL, started,
                 nfire, nstale, nspur, ninfire, seen, conc, quiesced>>

---------------------------------------------------------------------------
(* everything the drive future still owns is dropped when it completes or is dropped *)
Leftovers(f) ==
  (IF f.hand.v >= 0 THEN <<EvVdrop(f.hand.v)>> ELSE <<>>)
  \o LET ms == SeqOfSet(DOMAIN f.mem)
         evOf(mm) == IF f.mem[mm].child >= 0 THEN <<EvCdrop(f.mem[mm].child)>>
                     ELSE IF f.mem[mm].val >= 0 THEN <<EvVdrop(f.mem[mm].val)>> ELSE <<>>
         RECURSIVE Cat(_)
         Cat(s) == IF s = <<>> THEN <<>> ELSE evOf(Head(s)) \o Cat(Tail(s))
     IN Cat(ms)
  \o (IF SrcVec THEN [i \in 1..(N - f.srcPos) |-> EvVdrop(f.srcPos + i - 1)]     \* items still in the iterator
      ELSE IF alive[0] THEN <<EvCdrop(0)>> ELSE <<>>)

Cleared(f) == [f EXCEPT !.mem = << >>, !.srcPos = IF SrcVec THEN N ELSE @, !.hand = NoItem, !.phase = "done", !.cur = -1, !.res = NoRes, !.inNext = FALSE]

\* the drive future resolves
Resolve(f, ok, v, out) ==
  /\ fs' = [Cleared(f) EXCEPT !.returned = TRUE, !.output = <<>>]
  /\ alive' = [c \in Ch |-> FALSE]
  /\ Ret("ready")
  /\ Emit(Leftovers(f) \o <<EvRet("ready", ok, v, out, -1)>>)

\* a fresh iteration of the drive loop: a new race, polled at once (progress first)
FreshRace(f) == [f EXCEPT !.phase = "race", !.raceOff = 1, !.todo = <<"b", "a">>, !.arm = "none"]

\* push the pipeline of an item into the group (it is flagged: a new member is polled by the next `next()`)
Push(f, it) ==
  LET id == IF f.free # <<>> THEN Head(f.free) ELSE f.slen IN
  [f EXCEPT !.mem = (id :> [src |-> it.src, val |-> it.v, j |-> 1, child |-> -1, idxs |-> it.idxs]) @@ @,
            !.free = IF f.free # <<>> THEN Tail(@) ELSE @, !.slen = IF f.free # <<>> THEN @ ELSE @ + 1,
            !.lastSlot = id,
            !.nmem = @ + 1, !.count = IF Counted THEN @ + 1 ELSE @, !.hand = NoItem]
\* FuturesUnorderedBounded::try_push: the slot of a new member is flagged (queued for polling)
PushRd(r, f0, f1) == IF f1.nmem = f0.nmem THEN r ELSE RSet(RResize(r, f1.slen), f1.lastSlot)
AfterPush(f, it) == IF it.brk THEN [f EXCEPT !.phase = "flush", !.arm = "none"] ELSE FreshRace(f)

(* Consumer::send through the adapter chain (innermost adapter first).  Returns the new fs and the    *)
(* events; the item either is refused by a take adapter, waits for a slot, or is pushed.               *)
SendItem(f, v) ==
  LET RECURSIVE Walk(_, _, _, _)
      \* i: adapter position, c: counters, idxs: enumerate assignments, brk: some take reached its limit with this item
      Walk(i, c, idxs, brk) ==
        IF i > Len(Stack) THEN [refused |-> FALSE, c |-> c, idxs |-> idxs, brk |-> brk]
        ELSE IF Stack[i].k = "take" THEN
               IF c[i] >= Stack[i].n THEN [refused |-> TRUE, c |-> c, idxs |-> idxs, brk |-> TRUE]
               ELSE Walk(i + 1, [c EXCEPT ![i] = @ + 1], idxs, brk \/ c[i] + 1 >= Stack[i].n)
        ELSE IF Stack[i].k = "enumerate" THEN Walk(i + 1, [c EXCEPT ![i] = @ + 1], (i :> c[i]) @@ idxs, brk)
        ELSE Walk(i + 1, c, idxs, brk)
      w == Walk(1, f.cnt, << >>, FALSE)
      it == [v |-> v, src |-> v, idxs |-> w.idxs, brk |-> w.brk]
      f1 == [f EXCEPT !.cnt = w.c]
  IN IF w.refused
       THEN \* TakeConsumer::send: the limit was reached before: the item is dropped, the loop breaks
            [f |-> [f1 EXCEPT !.phase = "flush", !.arm = "none"], evs |-> <<EvVdrop(v)>>]
       ELSE IF Limited /\ f1.count >= cfg.limit
              THEN [f |-> [f1 EXCEPT !.phase = "bp", !.hand = it, !.arm = "none"], evs |-> <<>>]
              ELSE [f |-> AfterPush(Push(f1, it), it), evs |-> <<>>]

---------------------------------------------------------------------------
(* a member of the group is polled: start its next closure layer, or resume its pending future *)
StartLayer(mm, f) ==      \* events of the closure call of layer f.mem[mm].j; the new child is Cardinality(Ch)
  LET r == f.mem[mm]
      c == Cardinality(Ch)
      lid == LayerId(r.j) IN
  (IF lid >= 0 THEN <<[e |-> "mapcall", layer |-> lid, src |-> r.src, v |-> r.val]>> ELSE <<>>)
  \o <<[e |-> "wnew", c |-> c, layer |-> lid, src |-> r.src, v |-> r.val, idx |-> IdxFor(r.j, r.idxs)]>>

(* `group.next()`: poll a flagged member; none flagged: None if the group is empty, else Pending *)
GroupPoll(mm) ==
  LET r == fs.mem[mm] IN
  /\ rd' = RClear(rd, mm)
  /\ IF r.child >= 0
       THEN \* resume the pending closure future
            /\ HandOut(r.child, <<"s", mm>>)
            /\ fs' = [fs EXCEPT !.cur = mm]
            /\ Emit(<<CoCpoll(r.child, polls[r.child], <<"s", mm>>)>>) /\ NoRet
            /\ UNCHANGED <<ans, alive, pend, nit>>
       ELSE IF r.j <= NLayers
         THEN \* call the closure of the next layer and poll the future it returns
              LET c == Cardinality(Ch) IN
              /\ fs' = [fs EXCEPT !.cur = mm, !.mem[mm].child = c, !.mem[mm].val = -1]
              /\ ans' = ans @@ (c :> "new") /\ alive' = alive @@ (c :> TRUE)
              /\ pend' = pend @@ (c :> 0) /\ nit' = nit @@ (c :> 0)
              /\ polls' = polls @@ (c :> 1) /\ handed' = handed @@ (c :> <<<<"s", mm>>>>) /\ firedL' = firedL @@ (c :> FALSE)
              /\ seen' = Seen1(<<"s", mm>>) /\ cur' = c /\ pc' = "inchild"
              /\ Emit(StartLayer(mm, fs) \o <<CoCpoll(c, 0, <<"s", mm>>)>>) /\ NoRet
         ELSE \* no closure layers at all (plain collect): the item itself is the output
              /\ fs' = [fs EXCEPT !.res = [set |-> TRUE, ok |-> TRUE, val |-> r.val], !.mem = [x \in DOMAIN @ \ {mm} |-> @[x]], !.free = <<mm>> \o @, !.cur = -1]
              /\ pc' = "scan" /\ NoRet /\ Emit(<<>>)
              /\ UNCHANGED <<cur, ans, alive, pend, nit, handV>>

\* what the consumer does with a completed member, by context
Completed ==
  LET ok == fs.res.ok
      val == fs.res.val
      f0 == [fs EXCEPT !.res = NoRes, !.count = IF Counted THEN @ - 1 ELSE @, !.inNext = FALSE]
      ctx == IF fs.phase = "race" THEN "progress" ELSE fs.phase IN
  IF ok THEN
       \* for_each / try_for_each: go on; collect: push the output
       /\ fs' = IF Term \in {"collect", "collect_result"} THEN [f0 EXCEPT !.output = Append(@, val)] ELSE f0
       /\ pc' = "scan" /\ NoRet /\ Emit(<<>>) /\ UNCHANGED alive
  ELSE IF Term = "try_for_each" THEN
       IF ctx = "flush"
         THEN Resolve(f0, FALSE, val, <<>>)
         ELSE \* progress / send: remember the error, stop taking items; an item in hand is dropped
              /\ fs' = [f0 EXCEPT !.residual = val, !.phase = "flush", !.arm = "none", !.hand = NoItem]
              /\ pc' = "scan" /\ NoRet /\ UNCHANGED alive
              /\ Emit(IF fs.hand.v >= 0 THEN <<EvVdrop(fs.hand.v)>> ELSE <<>>)
  ELSE \* collect into Result: the output becomes Err (the items collected so far are dropped); progress breaks,
       \* flush (= progress) returns
       /\ fs' = [f0 EXCEPT !.outErr = val, !.phase = "flush", !.arm = "none", !.output = <<>>]
       /\ pc' = "scan" /\ NoRet /\ Emit([i \in 1..Len(fs.output) |-> EvVdrop(fs.output[i])]) /\ UNCHANGED alive

\* `next()` found nothing to poll
GroupIdle ==
  LET empty == GMembers = {}
      ctx == IF fs.phase = "race" THEN "progress" ELSE fs.phase IN
  /\ UNCHANGED rd
  /\ CASE ctx = "progress" ->
            IF empty
              THEN \* ConsumerState::Empty: wait for the next item (the race is dropped)
                   /\ fs' = [fs EXCEPT !.phase = "wait", !.arm = "none", !.inNext = FALSE]
                   /\ pc' = "scan" /\ NoRet /\ Emit(<<>>) /\ UNCHANGED alive
              ELSE \* progress is pending: the other arm of the race, or Pending
                   /\ fs' = [fs EXCEPT !.arm = "none", !.inNext = FALSE]
                   /\ pc' = "scan" /\ NoRet /\ Emit(<<>>) /\ UNCHANGED alive
       [] ctx = "bp" ->
            /\ ~empty                 \* (count >= limit implies members in flight)
            /\ Ret("pending") /\ Emit(<<EvRet("pending", TRUE, -1, <<>>, -1)>>) /\ UNCHANGED alive
            /\ fs' = [fs EXCEPT !.inNext = FALSE]
       [] ctx = "flush" ->
            IF empty
              THEN IF Term = "collect_result" /\ fs.outErr >= 0 THEN Resolve(fs, FALSE, fs.outErr, <<>>)
                   ELSE Resolve(fs, TRUE, -1, fs.output)
              ELSE /\ Ret("pending") /\ Emit(<<EvRet("pending", TRUE, -1, <<>>, -1)>>) /\ UNCHANGED alive
                   /\ fs' = [fs EXCEPT !.inNext = FALSE]

\* one step of `group.next()`: on entry the parent waker is registered (unless the group is empty); then flagged
\* members are polled until one completes; nothing flagged: Pending
GroupStep ==
  IF ~fs.inNext /\ GMembers # {}
    THEN /\ rd' = RSetWaker(rd, gen)
         /\ fs' = [fs EXCEPT !.inNext = TRUE]
         /\ pc' = "scan" /\ NoRet /\ Emit(<<>>)
         /\ UNCHANGED <<cur, ans, alive, pend, nit, handV>>
    ELSE IF Flagged # {} THEN \E mm \in Flagged : GroupPoll(mm)
         ELSE IF fs.inNext /\ \E sl \in DOMAIN rd.bits : rd.bits[sl] /\ sl \notin GMembers
           THEN \* stale wake-ups queued for vacant slots are popped and dropped
                /\ rd' = [rd EXCEPT !.bits = [sl \in DOMAIN rd.bits |-> rd.bits[sl] /\ sl \in GMembers],
                                     !.count = Cardinality({sl \in DOMAIN rd.bits : rd.bits[sl] /\ sl \in GMembers})]
                /\ pc' = "scan" /\ NoRet /\ Emit(<<>>)
                /\ UNCHANGED <<fs, cur, ans, alive, pend, nit, handV>>
         ELSE GroupIdle /\ UNCHANGED <<cur, ans, pend, nit, handV>>

PollSource ==
  IF SrcVec
    THEN \* from_iter: never pending, no events
         IF fs.srcPos < N
           THEN LET s == SendItem([fs EXCEPT !.srcPos = @ + 1], fs.srcPos) IN
                /\ fs' = s.f /\ pc' = "scan" /\ NoRet /\ Emit(s.evs)
                /\ rd' = PushRd(rd, fs, s.f)
                /\ UNCHANGED <<cur, ans, alive, pend, nit, handV>>
           ELSE /\ fs' = [fs EXCEPT !.srcDone = TRUE, !.phase = "flush", !.arm = "none"]
                /\ pc' = "scan" /\ NoRet /\ Emit(<<>>)
                /\ UNCHANGED <<rd, cur, ans, alive, pend, nit, handV>>
    ELSE /\ HandOut(0, <<"p", gen>>)
         /\ Emit(<<CoCpoll(0, polls[0], <<"p", gen>>)>>) /\ NoRet
         /\ UNCHANGED <<fs, rd, ans, alive, pend, nit>>

(* the control flow of `drive` between two child polls *)
Control ==
  /\ pc = "scan"
  /\ IF fs.res.set THEN Completed /\ UNCHANGED <<rd, cur, ans, pend, nit, handV>>
     ELSE CASE fs.phase = "race" ->
            IF fs.arm = "none" THEN
                 IF fs.todo = <<>>
                   THEN /\ Ret("pending") /\ Emit(<<EvRet("pending", TRUE, -1, <<>>, -1)>>)
                        /\ UNCHANGED <<fs, rd, cur, ans, alive, pend, nit, handV>>
                   ELSE /\ fs' = [fs EXCEPT !.arm = Head(fs.todo), !.todo = Tail(fs.todo)]
                        /\ pc' = "scan" /\ NoRet /\ Emit(<<>>)
                        /\ UNCHANGED <<rd, cur, ans, alive, pend, nit, handV>>
            ELSE IF fs.arm = "b" THEN
                 \* consumer.progress(): TakeConsumer / ResultVecConsumer may break at once
                 IF TakeReached(fs) \/ (Term = "collect_result" /\ fs.outErr >= 0)
                   THEN /\ fs' = [fs EXCEPT !.phase = "flush", !.arm = "none"]
                        /\ pc' = "scan" /\ NoRet /\ Emit(<<>>)
                        /\ UNCHANGED <<rd, cur, ans, alive, pend, nit, handV>>
                   ELSE GroupStep
            ELSE PollSource
         [] fs.phase = "wait" -> PollSource
         [] fs.phase = "bp" ->
            IF fs.count < cfg.limit
              THEN \* space is available: push, then TakeConsumer's check after the inner send
                   /\ fs' = AfterPush(Push(fs, fs.hand), fs.hand)
                   /\ rd' = PushRd(rd, fs, Push(fs, fs.hand))
                   /\ pc' = "scan" /\ NoRet /\ Emit(<<>>)
                   /\ UNCHANGED <<cur, ans, alive, pend, nit, handV>>
              ELSE GroupStep
         [] fs.phase = "flush" ->
            IF Term = "try_for_each" /\ fs.residual >= 0
              THEN Resolve(fs, FALSE, fs.residual, <<>>) /\ UNCHANGED <<rd, cur, ans, pend, nit, handV>>
            ELSE IF Term = "collect_result" /\ fs.outErr >= 0
              THEN \* ResultVecConsumer::flush = progress: the output already is Err: return at once
                   Resolve(fs, FALSE, fs.outErr, <<>>) /\ UNCHANGED <<rd, cur, ans, pend, nit, handV>>
              ELSE GroupStep
  /\ UNCHANGED <<cfg, gen, wokenL, started, nfire, nstale, nspur, ninfire, conc, quiesced>>

(* a child answers: the source (arm a of the race, or the plain `next().await`), or a closure future *)
ChildAnswer ==
  /\ pc = "inchild"
  /\ IF cur = 0
       THEN \E a \in Answers(0, TRUE) :
              /\ ChildSays(0, a)
              /\ CASE a.r = "pending" ->
                        /\ UNCHANGED rd
                        /\ IF fs.phase = "race"
                             THEN /\ fs' = [fs EXCEPT !.arm = "none"]
                                  /\ pc' = "scan" /\ NoRet /\ Emit(<<CretEv(0, a)>>) /\ UNCHANGED alive
                             ELSE /\ Ret("pending") /\ UNCHANGED <<fs, alive>>
                                  /\ Emit(<<CretEv(0, a), EvRet("pending", TRUE, -1, <<>>, -1)>>)
                   [] a.r = "none" ->
                        /\ fs' = [fs EXCEPT !.srcDone = TRUE, !.phase = "flush", !.arm = "none"]
                        /\ pc' = "scan" /\ NoRet /\ Emit(<<CretEv(0, a)>>) /\ UNCHANGED <<alive, rd>>
                   [] a.r = "some" ->
                        LET s == SendItem(fs, Val(0)) IN
                        /\ fs' = s.f /\ pc' = "scan" /\ NoRet /\ Emit(<<CretEv(0, a)>> \o s.evs) /\ UNCHANGED alive
                        /\ rd' = PushRd(rd, fs, s.f)
              /\ UNCHANGED <<cur, polls, handed, firedL, seen>>
       ELSE LET c == cur
                mm == fs.cur
                r == fs.mem[mm] IN
            \E a \in {b \in Answers(c, FALSE) \cup (IF c \in NeverSet THEN {} ELSE {[r |-> "ready", ok |-> FALSE]}) : b.ok \/ LayerFallible(r.j)} :
              /\ IF a.r = "pending"
                   THEN /\ ChildSays(c, a)
                        /\ fs' = [fs EXCEPT !.cur = -1]
                        /\ pc' = "scan" /\ NoRet /\ Emit(<<CretEv(c, a)>>)
                        /\ UNCHANGED <<rd, cur, alive, polls, handed, firedL, seen>>
                   ELSE LET unit == LayerUnit(r.j) /\ a.ok
                            v == IF unit THEN -1 ELSE Val(c)
                            cret == EvCret(c, K(c), "ready", a.ok, v) IN
                        IF a.ok /\ r.j < NLayers
                          THEN \* the next closure is called with the output; the finished future is dropped
                               \* when its wrapper lets go of it (before the call if an enumerate layer lies between)
                               LET f1 == [fs EXCEPT !.mem[mm].val = v, !.mem[mm].j = @ + 1, !.mem[mm].child = -1]
                                   c2 == Cardinality(Ch)
                                   call == StartLayer(mm, f1) IN
                               /\ fs' = [f1 EXCEPT !.mem[mm].child = c2, !.mem[mm].val = -1]
                               /\ ans' = [ans EXCEPT ![c] = "done"] @@ (c2 :> "new")
                               /\ alive' = [alive EXCEPT ![c] = FALSE] @@ (c2 :> TRUE)
                               /\ pend' = pend @@ (c2 :> 0) /\ nit' = nit @@ (c2 :> 0)
                               /\ polls' = polls @@ (c2 :> 1) /\ handed' = handed @@ (c2 :> <<<<"s", mm>>>>)
                               /\ firedL' = firedL @@ (c2 :> FALSE) /\ seen' = Seen1(<<"s", mm>>)
                               /\ cur' = c2 /\ pc' = "inchild" /\ NoRet /\ UNCHANGED rd
                               /\ Emit(<<cret>> \o (IF EnumBetween(r.j + 1) THEN <<EvCdrop(c)>> ELSE <<>>) \o call
                                       \o (IF EnumBetween(r.j + 1) THEN <<>> ELSE <<EvCdrop(c)>>) \o <<CoCpoll(c2, 0, <<"s", mm>>)>>)
                          ELSE \* the member completes (its future is dropped by the group)
                               /\ ChildSays(c, a)
                               /\ fs' = [fs EXCEPT !.res = [set |-> TRUE, ok |-> a.ok, val |-> v], !.mem = [x \in DOMAIN @ \ {mm} |-> @[x]], !.free = <<mm>> \o @, !.cur = -1]
                               /\ alive' = [alive EXCEPT ![c] = FALSE]
                               /\ pc' = "scan" /\ NoRet /\ Emit(<<cret, EvCdrop(c)>>)
                               /\ UNCHANGED <<rd, cur, polls, handed, firedL, seen>>
  /\ UNCHANGED <<cfg, gen, wokenL, started, nfire, nstale, nspur, ninfire, conc, quiesced>>

OutputDrops(f) == MapSeq(f.output, LAMBDA v : EvVdrop(v))
Drop ==
  /\ DropWith(IF fs.returned THEN <<>> ELSE Leftovers(fs) \o OutputDrops(fs))
\* a panic in a child unwinds through the async state machine of `drive`: everything it owns is dropped during
\* the unwinding, i.e. before the caller sees the panic; dropping the (then empty) future afterwards drops nothing
ChildPanic ==
  /\ pc = "inchild" /\ cfg.panic
  /\ Emit(<<EvCret(cur, K(cur), "panic", TRUE, -1)>> \o Leftovers(fs) \o OutputDrops(fs)
          \o <<[e |-> "panic", at |-> "poll"], Ev("drop"), Ev("dropped")>>)
  /\ pc' = "dropped" /\ final' = TRUE
  /\ alive' = [c \in Ch |-> FALSE]
  /\ UNCHANGED <<cfg, fs, rd, cur, ans, pend, nit, polls, handed, firedL, gen, wokenL, started, needPoll,
                 nfire, nstale, nspur, ninfire, seen, conc, quiesced>>

Next == (Poll /\ fs.announced) \/ (PollReuse /\ fs.announced) \/ Wakes \/ Quiesce \/ Finish
        \/ Announce \/ PollBegin \/ Control \/ ChildAnswer \/ ChildPanic \/ (Drop /\ fs.announced)
NextLive == Next \/ \E c \in Ch : OwedWake(c)
Spec == Init /\ [][Next]_vars
LiveSpec == Init /\ [][NextLive]_vars
            /\ WF_vars(Poll /\ fs.announced /\ (~started \/ wokenL \/ needPoll)) /\ WF_vars(Announce)
            /\ WF_vars(PollBegin) /\ WF_vars(Control) /\ WF_vars(ChildAnswer)
            /\ \A c \in 0..8 : WF_vars(OwedWake(c))

---------------------------------------------------------------------------
TypeOK == /\ EnvTypeOK
          /\ fs.phase \in {"race", "wait", "bp", "flush", "done"}
          /\ (Counted /\ fs.phase # "done") => fs.count = Cardinality(GMembers) + (IF fs.res.set THEN 1 ELSE 0)
\* the concurrency limit: never more members in flight than the limit
WithinLimit == Limited => Cardinality(GMembers) <= cfg.limit
\* nothing is taken from the source after an error was observed, or after a take adapter is exhausted
Resolves == (cfg.never = <<>> /\ ~cfg.drop /\ ~cfg.panic) => <>(final)
=============================================================================
