SPECIFICATION Spec
CONSTANT Cfgs <- CfgsThorough
INVARIANT MonitorsQuiet InnerCount InnerParentLatest Decided InnerOwned TypeOK
CHECK_DEADLOCK FALSE
