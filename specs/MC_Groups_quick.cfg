SPECIFICATION Spec
CONSTANT Cfgs <- CfgsQuick
INVARIANT MonitorsQuiet ReadinessCount ParentPresent ParentLatest SetView FreshReady TypeOK
CHECK_DEADLOCK FALSE
