SPECIFICATION Spec
CONSTANT Cfgs <- CfgsQuick
INVARIANT MonitorsQuiet ReadinessCount InnerCount Chained Rearmed TypeOK
CHECK_DEADLOCK FALSE
