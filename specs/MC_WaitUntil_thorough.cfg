SPECIFICATION Spec
CONSTANT Cfgs <- CfgsThorough
INVARIANT MonitorsQuiet Untouched TypeOK
CHECK_DEADLOCK FALSE
