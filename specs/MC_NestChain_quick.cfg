SPECIFICATION Spec
CONSTANT Cfgs <- CfgsQuick
INVARIANT MonitorsQuiet InnerCount Sequential InnerParentLatest Rearmed TypeOK
CHECK_DEADLOCK FALSE
