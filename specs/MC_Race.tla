------------------------------ MODULE MC_Race ------------------------------
EXTENDS Race, Json

B(rec, mp, mf, ms, sp, mi, dr, pa) ==
  [rec |-> rec, maxPend |-> mp, maxItems |-> 0, maxFire |-> mf, maxStale |-> ms, maxSpur |-> sp, maxInFire |-> mi,
   drop |-> dr, panic |-> pa, threads |-> FALSE]

Mk(fam, cont, n, never, b) ==
  [fam |-> fam, cont |-> cont, n |-> n, feat |-> "alloc", sub |-> FALSE, rdy |-> FALSE, stream |-> FALSE,
   fallible |-> fam = "race_ok", group |-> FALSE, never |-> never, x |-> -1,
   conts |-> IF fam = "race" THEN <<"arr", "vec", "tup">> ELSE <<cont>>] @@ b

Shapes == {<<"race", "arr">>, <<"race_ok", "arr">>, <<"race_ok", "vec">>, <<"race_ok", "tup">>}

CfgsQuick ==
  {[repoll |-> TRUE] @@ Mk("race", "arr", 2, <<>>, B(FALSE, 1, 1, 0, 0, 0, FALSE, FALSE))} \cup
  {[reuse |-> TRUE] @@ Mk(s[1], s[2], 2, <<>>, B(FALSE, 1, 1, 0, 1, 0, FALSE, FALSE)) : s \in Shapes} \cup
  {Mk(s[1], s[2], 2, <<>>, B(FALSE, 2, 2, 1, 1, 1, TRUE, TRUE)) : s \in Shapes}
  \cup {Mk(s[1], s[2], 3, nv, B(FALSE, 1, 2, 1, 1, 1, FALSE, FALSE)) : s \in Shapes, nv \in {<<>>, <<1>>}}
  \cup {Mk(s[1], s[2], 1, <<>>, B(FALSE, 1, 1, 0, 1, 1, TRUE, TRUE)) : s \in Shapes}
  \cup {Mk("race_ok", c, 0, <<>>, B(FALSE, 1, 1, 0, 0, 0, TRUE, FALSE)) : c \in {"arr", "vec"}}

CfgsThorough ==
  CfgsQuick \cup
  {Mk(s[1], s[2], 3, nv, B(FALSE, 2, 3, 1, 1, 2, TRUE, TRUE)) : s \in Shapes, nv \in {<<>>, <<0>>, <<1, 2>>}}
  \cup {Mk(s[1], s[2], 4, <<>>, B(FALSE, 1, 2, 1, 1, 1, FALSE, FALSE)) : s \in Shapes}

CfgsGenQ ==
  {Mk(s[1], s[2], 2, <<>>, B(TRUE, 1, 2, 1, 1, 1, TRUE, TRUE)) : s \in Shapes}
  \cup {Mk(s[1], s[2], 2, <<0>>, B(TRUE, 1, 1, 0, 0, 1, FALSE, FALSE)) : s \in Shapes}
  \cup {Mk(s[1], s[2], 1, <<>>, B(TRUE, 1, 1, 0, 1, 1, TRUE, FALSE)) : s \in Shapes}
  \cup {Mk("race_ok", c, 0, <<>>, B(TRUE, 1, 1, 0, 0, 0, TRUE, FALSE)) : c \in {"arr", "vec"}}

CfgsGen ==
  {Mk(s[1], s[2], 2, <<>>, B(TRUE, 2, 2, 1, 1, 1, TRUE, TRUE)) : s \in Shapes}
  \cup {Mk(s[1], s[2], 3, <<>>, B(TRUE, 1, 2, 1, 1, 1, TRUE, FALSE)) : s \in Shapes}
  \cup {Mk(s[1], s[2], 2, <<0>>, B(TRUE, 1, 2, 0, 1, 1, FALSE, FALSE)) : s \in Shapes}
  \cup {Mk("race_ok", c, 0, <<>>, B(TRUE, 1, 1, 0, 0, 0, TRUE, FALSE)) : c \in {"arr", "vec"}}

CfgsLiveQ == {Mk(s[1], s[2], 2, <<>>, B(FALSE, 1, 1, 1, 1, 1, FALSE, FALSE)) : s \in Shapes}
CfgsLive == {Mk(s[1], s[2], n, <<>>, B(FALSE, 2, 1, 1, 1, 1, FALSE, FALSE)) : s \in Shapes, n \in {2, 3}}

ExportOK == ExportEnd => PrintT("VEC " \o ToJson([cfg |-> cfg, hist |-> hist']))
=============================================================================
