----------------------------- MODULE NestChain ------------------------------
(***************************************************************************)
(* One level of nesting of streams across the two waker strategies,        *)
(* implementation-shaped:                                                  *)
(*     vec![ box([s0, s1].merge()), box(s2) ].chain()                      *)
(* an outer Vec chain (src/stream/chain/vec.rs: sequential, `done`         *)
(* assertion, the caller's Context passed straight through) whose first    *)
(* input is an inner array merge (src/stream/merge/array.rs: its own       *)
(* readiness record, rotating Indexer, sub-wakers for its inputs) and      *)
(* whose second input is the leaf s2.  What the other nest modules do not  *)
(* have:                                                                   *)
(*  - a sequential outer combinator: s2 is not polled (and holds no        *)
(*    registration) until the inner merge has ended; the poll in which the *)
(*    inner merge ends goes on to poll s2 at once;                         *)
(*  - the inner merge's stored parent waker is the CALLER's waker of the   *)
(*    most recent poll; its re-arm-without-wake after an item relies on    *)
(*    the consumer of the *chain* polling again;                           *)
(*  - an inner merge that has ended stays in place, is never polled again  *)
(*    (C03 / C10 for a nest), and is dropped with the chain.               *)
(*                                                                         *)
(* fs: ist, icomplete, ioffset, iorder, ird (inner merge)                  *)
(*     index, cdone (chain), lvl ("outer" | "inner")                       *)
(***************************************************************************)
EXTENDS L2Env

InnerKids == {0, 1}
FsInit(c) ==
  [ist |-> [i \in InnerKids |-> "P"], icomplete |-> 0, ioffset |-> 0, iorder |-> <<>>,
   ird |-> [bits |-> [i \in InnerKids |-> TRUE], count |-> 2, parent |-> <<"none", -1>>],
   index |-> 0, cdone |-> FALSE, lvl |-> "outer"]
InitFor(c) == InitEnv(c, 3, FsInit(c))
Init == \E c \in Cfgs : InitFor(c)

Rot2(off) == [k \in 1..2 |-> (k - 1 + off) % 2]

\* inner readiness (same operators as L2Env's, on fs.ird)
IAny(r) == IF Sub THEN r.count > 0 ELSE TRUE
IClearOld(r, i) == IF Sub THEN r.bits[i] ELSE TRUE
IClear(r, i) == IF Sub /\ r.bits[i] THEN [r EXCEPT !.bits[i] = FALSE, !.count = @ - 1] ELSE r
ISet(r, i) == IF Sub /\ ~r.bits[i] THEN [r EXCEPT !.bits[i] = TRUE, !.count = @ + 1] ELSE r

CallerWaker == <<"p", gen>>
InnerWaker(i) == IF Sub THEN <<"i", i>> ELSE fs.ird.parent

---------------------------------------------------------------------------
(* chain/vec.rs poll_next: assert!(!done); loop *)
PollBegin ==
  /\ pc = "begin" /\ ~fs.cdone
  /\ fs' = [fs EXCEPT !.lvl = "outer"]
  /\ pc' = "scan" /\ NoRet /\ Emit(<<>>)
  /\ UNCHANGED <<cfg, rd, cur, ans, alive, pend, nit, polls, handed, firedL, gen, wokenL, started,
                 nfire, nstale, nspur, ninfire, seen, conc, quiesced>>

\* one iteration of the chain's loop
OuterStep ==
  IF fs.index = 2
    THEN /\ fs' = [fs EXCEPT !.cdone = TRUE]
         /\ Ret("none") /\ Emit(<<EvRet("none", TRUE, -1, <<>>, -1)>>)
         /\ UNCHANGED <<cur, handV>>
    ELSE IF fs.index = 0
      THEN \* poll the inner merge with the caller's context (merge/array.rs poll_next): set_waker; Indexer::iter
           /\ fs' = [fs EXCEPT !.ird.parent = CallerWaker, !.iorder = Rot2(fs.ioffset),
                               !.ioffset = (fs.ioffset + 1) % 2, !.lvl = "inner"]
           /\ pc' = "scan" /\ NoRet /\ Emit(<<>>) /\ UNCHANGED <<cur, handV>>
      ELSE \* the leaf s2, polled with the caller's waker
           /\ HandOut(2, CallerWaker)
           /\ Emit(<<CpollEv(2, CallerWaker)>>) /\ NoRet /\ UNCHANGED fs

\* one iteration of the inner merge's loop; when it ends without an item the merge answers Pending and so does the chain
InnerStep ==
  IF fs.iorder = <<>> \/ ~IAny(fs.ird)
    THEN /\ fs' = [fs EXCEPT !.lvl = "outer"]
         /\ Ret("pending") /\ Emit(<<EvRet("pending", TRUE, -1, <<>>, -1)>>)
         /\ UNCHANGED <<cur, handV>>
    ELSE LET i == Head(fs.iorder)
             old == IClearOld(fs.ird, i) IN
         IF ~old \/ fs.ist[i] = "N"
           THEN /\ fs' = [fs EXCEPT !.ird = IClear(@, i), !.iorder = Tail(@)]
                /\ pc' = "scan" /\ NoRet /\ Emit(<<>>) /\ UNCHANGED <<cur, handV>>
           ELSE /\ fs' = [fs EXCEPT !.ird = IClear(@, i)]
                /\ HandOut(i, InnerWaker(i))
                /\ Emit(<<CpollEv(i, InnerWaker(i))>>) /\ NoRet

ScanStep ==
  /\ pc = "scan"
  /\ IF fs.lvl = "outer" THEN OuterStep ELSE InnerStep
  /\ UNCHANGED <<cfg, rd, ans, alive, pend, nit, gen, wokenL, started, nfire, nstale, nspur, ninfire, conc, quiesced>>

ChildAnswer ==
  /\ pc = "inchild"
  /\ \E a \in Answers(cur, TRUE) :
       LET c == cur
           v == Val(c) IN
       /\ ChildSays(c, a)
       /\ IF c = 2
            THEN CASE a.r = "pending" ->
                        /\ UNCHANGED fs
                        /\ Ret("pending") /\ Emit(<<CretEv(c, a), EvRet("pending", TRUE, -1, <<>>, -1)>>)
                   [] a.r = "some" ->
                        /\ UNCHANGED fs
                        /\ Ret("some") /\ Emit(<<CretEv(c, a), EvRet("some", TRUE, v, <<>>, -1)>>)
                   [] a.r = "none" ->
                        /\ fs' = [fs EXCEPT !.index = 2]
                        /\ pc' = "scan" /\ NoRet /\ Emit(<<CretEv(c, a)>>)
            ELSE CASE a.r = "pending" ->
                        /\ fs' = [fs EXCEPT !.iorder = Tail(@)]
                        /\ pc' = "scan" /\ NoRet /\ Emit(<<CretEv(c, a)>>)
                   [] a.r = "some" ->
                        \* the inner merge re-arms its input and yields; the chain forwards the item
                        /\ fs' = [fs EXCEPT !.ird = ISet(@, c), !.lvl = "outer"]
                        /\ Ret("some") /\ Emit(<<CretEv(c, a), EvRet("some", TRUE, v, <<>>, -1)>>)
                   [] a.r = "none" ->
                        IF fs.icomplete + 1 = 2
                          THEN \* the inner merge ends: the chain moves on to s2 in the same poll
                               /\ fs' = [fs EXCEPT !.icomplete = @ + 1, !.ist[c] = "N", !.index = 1, !.lvl = "outer"]
                               /\ pc' = "scan" /\ NoRet /\ Emit(<<CretEv(c, a)>>)
                          ELSE /\ fs' = [fs EXCEPT !.icomplete = @ + 1, !.ist[c] = "N", !.iorder = Tail(@)]
                               /\ pc' = "scan" /\ NoRet /\ Emit(<<CretEv(c, a)>>)
  /\ UNCHANGED <<cfg, rd, cur, alive, polls, handed, firedL, gen, wokenL, started, nfire, nstale, nspur, ninfire, seen, conc, quiesced>>

---------------------------------------------------------------------------
(* wake-ups: an inner input's sub-waker sets the inner bit and, if it was clear, invokes the waker the inner merge *)
(* stored at its last poll: the caller's waker of that poll                                                        *)
NWakeEffect(c, k, inp) ==
  LET w == handed[c][k + 1]
      wid == WidIn(seen, w) IN
  /\ firedL' = [firedL EXCEPT ![c] = @ \/ (k = polls[c] - 1)]
  /\ CASE w[1] = "i" ->
            IF fs.ird.bits[w[2]]
              THEN /\ UNCHANGED <<fs, wokenL>>
                   /\ Emit(<<EvFire(c, k, wid, inp), EvFired(c, k)>>)
              ELSE LET g == fs.ird.parent[2] IN
                   /\ fs' = [fs EXCEPT !.ird = ISet(@, w[2])]
                   /\ wokenL' = (wokenL \/ g = gen)
                   /\ Emit(<<EvFire(c, k, wid, inp), EvPwake(g), EvFired(c, k)>>)
       [] w[1] = "p" ->
            /\ UNCHANGED fs
            /\ wokenL' = (wokenL \/ w[2] = gen)
            /\ Emit(<<EvFire(c, k, wid, inp), EvPwake(w[2]), EvFired(c, k)>>)

NWake(c, k) ==
  /\ pc \in {"idle", "dropped", "begin", "repolled"}
  /\ Fireable(c, k)
  /\ nfire < cfg.maxFire /\ nfire' = nfire + 1
  /\ StaleBudget(c, k)
  /\ NWakeEffect(c, k, FALSE)
  /\ conc' = (conc \/ pc = "begin")
  /\ quiesced' = FALSE
  /\ UNCHANGED <<cfg, rd, pc, cur, ans, alive, pend, nit, polls, handed, gen, started, final, needPoll, nspur, ninfire, seen>>

NInFire(c, k) ==
  /\ pc = "inchild"
  /\ Fireable(c, k)
  /\ ninfire < cfg.maxInFire /\ ninfire' = ninfire + 1
  /\ StaleBudget(c, k)
  /\ NWakeEffect(c, k, TRUE)
  /\ UNCHANGED <<cfg, rd, pc, cur, ans, alive, pend, nit, polls, handed, gen, started, final, needPoll, nfire, nspur, seen, conc, quiesced>>

NThreadWake(c, k) ==
  /\ pc = "scan" /\ cfg.threads
  /\ Fireable(c, k) /\ k = polls[c] - 1
  /\ nfire < cfg.maxFire /\ nfire' = nfire + 1
  /\ NWakeEffect(c, k, TRUE)
  /\ conc' = TRUE
  /\ UNCHANGED <<cfg, rd, pc, cur, ans, alive, pend, nit, polls, handed, gen, started, final, needPoll, nstale, nspur, ninfire, seen, quiesced>>

NWakes == \E c \in Ch : \E k \in 0..(polls[c] - 1) : NWake(c, k) \/ NInFire(c, k) \/ NThreadWake(c, k)

NOwedWake(c) ==
  /\ pc = "idle" /\ c \in Owed
  /\ NWakeEffect(c, polls[c] - 1, FALSE)
  /\ quiesced' = FALSE
  /\ UNCHANGED <<cfg, rd, pc, cur, ans, alive, pend, nit, polls, handed, gen, started, final, needPoll,
                 nfire, nstale, nspur, ninfire, seen, conc>>

---------------------------------------------------------------------------
\* the chain's Vec of inputs is dropped in order: the inner merge (its inputs in index order, ended or not), then the leaf
DropEvents == <<EvCdrop(0), EvCdrop(1), EvCdrop(2)>>
Drop == DropWith(DropEvents)
ChildPanic == PanicWith(DropEvents)
\* one more poll after None: the chain's assertion panics, the caller drops it
Repoll == RepollPanics(DropEvents)

Next == Poll \/ PollReuse \/ NWakes \/ Quiesce \/ Finish \/ PollBegin \/ ScanStep \/ ChildAnswer \/ ChildPanic \/ Drop \/ Repoll
NextLive == Next \/ \E c \in Ch : NOwedWake(c)
Spec == Init /\ [][Next]_vars
LiveSpec == Init /\ [][NextLive]_vars
            /\ WF_vars(Poll /\ (~started \/ wokenL \/ needPoll)) /\ WF_vars(PollBegin) /\ WF_vars(ScanStep) /\ WF_vars(ChildAnswer)
            /\ \A c \in 0..2 : WF_vars(NOwedWake(c))

---------------------------------------------------------------------------
TypeOK == /\ EnvTypeOK
          /\ fs.icomplete = Cardinality({i \in InnerKids : fs.ist[i] = "N"})
          /\ fs.index \in 0..2
          /\ (fs.index >= 1) <=> (fs.icomplete = 2)
InnerCount == Sub => fs.ird.count = Cardinality({i \in InnerKids : fs.ird.bits[i]})
\* sequential by design: the second input is not touched before the first has ended, the first never after
Sequential == /\ (fs.index = 0) => polls[2] = 0
              /\ (pc = "inchild" /\ cur \in InnerKids) => fs.index = 0
\* while the chain is parked on the inner merge, the merge's registration is the caller's latest waker
InnerParentLatest == (pc = "idle" /\ started /\ ~final /\ fs.index = 0) => fs.ird.parent = <<"p", gen>>
\* an inner input that yielded is polled again by the next poll although nobody woke it
Rearmed == (Sub /\ pc = "idle") => \A c \in InnerKids : (ans[c] = "some" /\ fs.index = 0) => fs.ird.bits[c]
Ends == (cfg.never = <<>> /\ ~cfg.drop /\ ~cfg.panic) => <>(final)
=============================================================================
