SPECIFICATION Spec
CONSTANT Cfgs <- CfgsThorough
INVARIANT MonitorsQuiet Counts Chained ParentLatest TypeOK
CHECK_DEADLOCK FALSE
