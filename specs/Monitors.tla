----------------------------- MODULE Monitors -----------------------------
(***************************************************************************)
(* Property monitors C01..C17, C19, C20 for futures-concurrency.           *)
(*                                                                         *)
(* A monitor is a pure fold  MonStep(m, e)  over the black-box event       *)
(* alphabet of DESIGN.md section 3.3.  The same operator is used           *)
(*   - inside the implementation-shaped (L2) specifications, where every   *)
(*     action emits its observable events into the monitor and TLC checks  *)
(*     m.bad = {} in every reachable state, and                            *)
(*   - in TraceMon.tla, which folds an ndjson trace recorded from the real *)
(*     code: this is what decides a property on an observed execution.     *)
(*                                                                         *)
(* Monitors mention observable things only (which child was polled, what   *)
(* it answered, which waker was invoked, what the combinator returned,     *)
(* what was dropped, what len() said) and never internal fields.           *)
(***************************************************************************)
EXTENDS Naturals, Integers, Sequences, FiniteSets, TLC

V(cond, p, why) == IF cond THEN {<<p, why>>} ELSE {}

Range(s) == {s[i] : i \in DOMAIN s}

RECURSIVE SeqSum(_)
SeqSum(s) == IF s = <<>> THEN 0 ELSE Head(s) + SeqSum(Tail(s))

---------------------------------------------------------------------------
(* Per-child record *)
NewChild(key, work) ==
  [ live   |-> TRUE,      \* owned by the combinator (handed in, not yet dropped)
    polls  |-> 0,
    ans    |-> "new",     \* "new" | "pending" | "some" | "done"
    lwid   |-> -1,        \* waker identity handed in the most recent poll
    wids   |-> {},        \* every waker identity ever handed to this child
    firedL |-> FALSE,     \* a waker with identity lwid was invoked since the last cpoll
    firedA |-> FALSE,     \* a waker with identity in wids was invoked since the last cpoll
    drops  |-> 0,
    key    |-> key,       \* group key (-1: none / unnamed)
    items  |-> <<>>,      \* values produced, in order
    deliv  |-> 0,         \* how many of them the combinator has yielded
    ok     |-> TRUE,      \* futures: resolved Ok (FALSE: resolved Err)
    member |-> TRUE,      \* groups: currently a member (inserted, not yielded/ended/removed)
    work   |-> work,      \* concurrent streams: a per-item work future
    item   |-> -1,        \* concurrent streams: the source item this work future processes
    layer  |-> -2,        \* concurrent streams: map layer (0..), -1 = the terminal closure
    idx    |-> -1 ]       \* concurrent streams: enumerate index reported at creation

IsSubFam(f) == f \in {"join", "try_join", "merge", "zip", "future_group", "stream_group"}
IsGroup(f) == f \in {"future_group", "stream_group"}
IsConcFam(f) == f \in {"join", "try_join", "race", "race_ok", "merge", "zip", "future_group", "stream_group"}

MonInit(e) ==
  [ fam |-> e.fam, cont |-> e.cont, n |-> e.n, feat |-> e.feat, stream |-> e.stream,
    sub |-> e.sub, never |-> Range(e.never), x |-> e.x, limit |-> e.limit, term |-> e.term,
    stack |-> e.stack, take |-> e.take,
    nmaps |-> e.nmaps,
    cur |-> << >>,          \* concurrent streams: source item -> latest value derived from it
    phase |-> "new",        \* "new" | "idle" | "inpoll" | "dropping" | "dropped"
    final |-> FALSE,        \* the combinator has produced its final result
    lastRet |-> "none",     \* "none" | "pending" | "item" | "final"
    g |-> -1, woken |-> FALSE, infire |-> FALSE,
    thr |-> FALSE,          \* other threads are invoking wakers concurrently (thread mode)
    open |-> <<>>,          \* thread mode: waker identities whose invocation has started and not yet returned
    thrEver |-> FALSE,      \* this run had a thread phase
    ch |-> IF IsGroup(e.fam) \/ e.fam = "co"
             THEN IF e.fam = "co"
                    THEN (0 :> IF e.cont = "vec"
                                 THEN [NewChild(-1, FALSE) EXCEPT !.live = FALSE, !.drops = 1]  \* items handed in, no source object
                                 ELSE NewChild(-1, FALSE))
                    ELSE << >>
             ELSE [c \in 0..(e.n - 1) |-> NewChild(-1, FALSE)],
    prod |-> {}, vown |-> << >>, vret |-> {}, vdrp |-> {},
    pc |-> <<>>,            \* child answers of the current poll, in order
    errFirst |-> -1,        \* value of the first Err answer of the trace
    okFirst |-> -1,         \* value of the first Ready / Ok answer of the trace
    errSeen |-> FALSE, okSeen |-> FALSE,
    nyield |-> 0,           \* items / rows yielded so far
    sinceX |-> 0,           \* consecutive yields not from the designated input x
    lastDrop |-> -1,        \* the child dropped most recently
    armed |-> {},           \* names of obligations that were exercised (vacuity guard)
    bad |-> {} ]

Kids(m) == DOMAIN m.ch
Done(m, c) == m.ch[c].ans = "done"
LiveKids(m) == {c \in Kids(m) : m.ch[c].live}
\* children that take part as "inputs" (not the source of a concurrent stream's work futures)
Inputs(m) == {c \in Kids(m) : ~m.ch[c].work}
NeverKids(m) == {c \in Kids(m) : c \in m.never}

AddBad(m, b) == [m EXCEPT !.bad = @ \cup b]
Arm(m, a) == [m EXCEPT !.armed = @ \cup a]
A(cond, name) == IF cond THEN {name} ELSE {}

---------------------------------------------------------------------------
(* C01: obligations on wake-ups.                                           *)
(* A child whose most recently handed waker was invoked since that child's *)
(* last poll began, and that has not been polled again, requires that the  *)
(* latest parent waker has been invoked since the latest poll began.       *)
C01Owed(m) == {c \in Kids(m) : m.ch[c].live /\ m.ch[c].ans = "pending" /\ m.ch[c].firedL}
C01Check(m, where) ==
  V(m.lastRet = "pending" /\ m.phase = "idle" /\ C01Owed(m) # {} /\ ~m.woken,
    "C01", <<"lost wake-up: child's latest waker fired, latest parent waker not invoked", where>>)

---------------------------------------------------------------------------
(* Event handlers.  Each computes the set of violations on the pre-state   *)
(* and the updated state.                                                  *)

OnBuilt(m, e) == [m EXCEPT !.phase = "idle"]

OnPoll(m, e) ==
  LET b == V(m.phase # "idle", "H00", <<"harness: poll in phase", m.phase>>)
  IN AddBad([m EXCEPT !.phase = "inpoll", !.g = e.g, !.woken = FALSE, !.pc = <<>>], b)

\* --- cpoll -------------------------------------------------------------
OnCpoll(m, e) ==
  LET c == e.c
      known == c \in Kids(m)
      ch == IF known THEN m.ch[c] ELSE NewChild(-1, FALSE)
      b03 == V(m.phase # "inpoll", "C03", <<"child polled outside a poll of its owner", c, m.phase>>)
             \cup V(known /\ ch.ans = "done", "C03", <<"child polled after it finished", c>>)
             \cup V(known /\ ~ch.live, "C03", <<"child polled after it was dropped/removed", c>>)
             \cup V(m.final, "C03", <<"child polled after the combinator's final result", c>>)
             \cup V(~known, "C03", <<"unknown child polled", c>>)
      \* C16: selective polling in the std sub-waker families
      openHit == \E i \in DOMAIN m.open : m.open[i] \in (ch.wids \cup {e.wid})
      \* (not judged in runs with a thread phase: the `cpoll` event is logged after the readiness bit was
      \*  cleared, so a concurrent wake-up landing in between cannot be ordered against it black-box)
      b16 == V(known /\ m.sub /\ IsSubFam(m.fam) /\ ch.ans = "pending" /\ ~ch.firedA /\ ~openHit /\ ~m.thrEver,
               "C16", <<"pending child re-polled without any of its wakers having fired", c>>)
      \* C05 / C06 / C07: nothing is polled after the deciding answer
      b05 == V(m.fam = "try_join" /\ m.errSeen, "C05", <<"child polled after a failure was seen", c>>)
      b06 == V(m.fam = "race" /\ m.okSeen, "C06", <<"child polled after a child resolved", c>>)
      b07 == V(m.fam = "race_ok" /\ m.okSeen, "C07", <<"child polled after a child succeeded", c>>)
             \* "a child that has failed is never polled again"
             \cup V(m.fam = "race_ok" /\ known /\ ch.ans = "done" /\ ~ch.ok, "C07", <<"a failed child was polled again", c>>)
      \* C11 / C12: a member that was removed (C12: or has ended) is never polled afterwards
      b1112 == V(m.fam \in {"future_group", "stream_group"} /\ known /\ (~ch.live \/ ch.ans = "done"),
                 IF m.fam = "future_group" THEN "C11" ELSE "C12", <<"a member was polled after it ended / was removed", c>>)
      \* C10: strictly sequential evaluation
      b10 == V(m.fam = "chain" /\ \E d \in Kids(m) : d < c /\ ~Done(m, d),
               "C10", <<"input polled before an earlier input ended", c>>)
      \* C19: the inner is untouched until the deadline resolved; the deadline never again afterwards
      b19 == V(m.fam \in {"wait_until", "wait_until_stream"} /\ c = 1 /\ ~Done(m, 0),
               "C19", <<"inner polled before the deadline resolved">>)
             \cup V(m.fam \in {"wait_until", "wait_until_stream"} /\ c = 0 /\ Done(m, 0),
               "C19", <<"deadline polled after it resolved">>)
      \* C14: nothing further is taken from the source after the first error
      arm == A(known /\ m.sub /\ ch.ans = "pending", "C16.repoll")
             \cup A(known /\ ch.ans = "pending" /\ ch.firedL, "C01.repoll_after_wake")
      nch == [ch EXCEPT !.polls = @ + 1, !.lwid = e.wid, !.wids = @ \cup {e.wid},
                        !.firedL = FALSE, !.firedA = openHit]
  IN Arm(AddBad([m EXCEPT !.ch = (c :> nch) @@ m.ch],
         b03 \cup b16 \cup b05 \cup b06 \cup b07 \cup b1112 \cup b10 \cup b19), arm)

\* --- cret --------------------------------------------------------------
OnCret(m, e) ==
  LET c == e.c
      known == c \in Kids(m)
      ch == IF known THEN m.ch[c] ELSE NewChild(-1, FALSE)
      hasv == e.v >= 0
      ans == CASE e.r = "pending" -> IF ch.ans = "done" THEN "done" ELSE "pending"
               [] e.r = "some" -> "some"
               [] e.r \in {"ready", "none"} -> "done"
               [] OTHER -> ch.ans      \* panic
      nch == [ch EXCEPT !.ans = ans,
                        !.items = IF hasv THEN Append(@, e.v) ELSE @,
                        !.ok = IF e.r = "ready" THEN e.ok ELSE @]
      isErr == e.r = "ready" /\ ~e.ok
      isOk == e.r = "ready" /\ e.ok
      firstErr == isErr /\ ~m.errSeen /\ ~ch.work
      \* "first child seen to resolve / succeed": only inputs count
      firstOk == isOk /\ ~m.okSeen
      \* C14: no further item is taken from the source after the first error was observed
      b14 == V(m.fam = "co" /\ c = 0 /\ e.r = "some" /\ m.errSeen,
               "C14", <<"item taken from the source after an error was observed", e.v>>)
      \* C14: futures still in flight when an error is observed are dropped unfinished (cancelled), not run
      \* to completion
      b14b == V(m.fam = "co" /\ m.term \in {"try_for_each", "collect_result"} /\ ch.work /\ m.errSeen /\ e.r = "ready",
                "C14", <<"a per-item future ran to completion after an error had been observed", c>>)
      m1 == [m EXCEPT !.ch = (c :> nch) @@ m.ch,
                      !.prod = IF hasv THEN @ \cup {e.v} ELSE @,
                      !.vown = IF hasv THEN (e.v :> c) @@ @ ELSE @,
                      !.pc = Append(@, [c |-> c, r |-> e.r, ok |-> e.ok, v |-> e.v]),
                      !.errSeen = @ \/ isErr,
                      !.okSeen = @ \/ isOk,
                      !.cur = IF m.fam = "co" /\ ch.work /\ isOk /\ hasv THEN (ch.item :> e.v) @@ @ ELSE @,
                      !.errFirst = IF isErr /\ ~m.errSeen THEN e.v ELSE @,
                      !.okFirst = IF firstOk THEN e.v ELSE @]
  IN AddBad(m1, b14 \cup b14b)

\* --- fire / pwake / fired ---------------------------------------------
OnFire(m, e) ==
  LET w == e.wid
      nch == [c \in Kids(m) |->
                [m.ch[c] EXCEPT !.firedL = @ \/ (m.ch[c].lwid = w),
                                !.firedA = @ \/ (w \in m.ch[c].wids)]]
      arm == A(\E c \in Kids(m) : m.ch[c].lwid = w /\ m.ch[c].ans = "done", "C01.wake_finished_child")
             \cup A(\E c \in Kids(m) : w \in m.ch[c].wids /\ m.ch[c].lwid # w, "C01.stale_waker")
             \cup A(m.phase = "inpoll", "C01.wake_mid_poll")
             \cup A(m.phase = "dropped", "C01.wake_after_drop")
             \cup A(m.final, "C01.wake_after_final")
             \cup A(\E c \in Kids(m) : m.ch[c].lwid = w /\ m.ch[c].firedL, "C01.repeated_wake")
  IN Arm([m EXCEPT !.ch = nch, !.infire = TRUE], arm)

\* one more poll after the final result: its answer is unspecified, but it must not reach a child
OnRepoll(m, e) == Arm([m EXCEPT !.phase = "inpoll", !.g = e.g, !.woken = FALSE, !.pc = <<>>], {"C03.repoll_after_final"})
OnReret(m, e) == [m EXCEPT !.phase = "idle"]

OnPwake(m, e) == [m EXCEPT !.woken = @ \/ (e.g = m.g)]

\* Thread mode.  A `tfire` is logged when another thread is about to invoke a handed waker (under the same lock
\* as the `cpoll` events, so "since the child's last poll began" is exact); the invocation itself happens some
\* time later, so no instantaneous obligation is evaluated while threads are running: a lost wake-up shows up
\* at the quiescence check of the single-threaded epilogue.
OnTstart(m, e) == Arm([m EXCEPT !.thr = TRUE, !.thrEver = TRUE], {"C01.threads"})
OnTjoin(m, e) == [m EXCEPT !.thr = FALSE]
\* the invocation returned: it may have taken effect after a poll of the child that began after `tfire`, so it
\* counts as "a waker of the child fired since its last poll" for the selective-polling rule (C16) again
OnTfired(m, e) ==
  LET i == IF \E j \in DOMAIN m.open : m.open[j] = e.wid THEN CHOOSE j \in DOMAIN m.open : m.open[j] = e.wid ELSE 0
      rest == IF i = 0 THEN m.open ELSE SubSeq(m.open, 1, i - 1) \o SubSeq(m.open, i + 1, Len(m.open))
  IN [m EXCEPT !.open = rest,
               !.ch = [c \in Kids(m) |-> [m.ch[c] EXCEPT !.firedA = @ \/ (e.wid \in m.ch[c].wids)]]]
OnTfire(m, e) ==
  LET w == e.wid
      nch == [c \in Kids(m) |->
                [m.ch[c] EXCEPT !.firedL = @ \/ (m.ch[c].lwid = w),
                                !.firedA = @ \/ (w \in m.ch[c].wids)]]
  IN Arm([m EXCEPT !.ch = nch, !.open = Append(@, w)], A(m.phase = "inpoll", "C01.thread_wake_mid_poll") \cup {"C01.thread_wake"})

OnFired(m, e) ==
  LET m1 == [m EXCEPT !.infire = FALSE]
      arm == A(m.lastRet = "pending" /\ m.phase = "idle" /\ C01Owed(m) # {}, "C01.parked_wake")
  IN Arm(AddBad(m1, C01Check(m1, "parked")), arm)

GP(m) == IF m.fam = "future_group" THEN "C11" ELSE "C12"

\* The property that states what a poll of this family must return; an unscripted panic
\* out of poll is a violation of it (inputs outside the property's domain: "P00").
FamProp(m) ==
  CASE m.fam = "join" -> "C04" [] m.fam = "try_join" -> "C05"
    [] m.fam = "race" -> IF m.n >= 1 THEN "C06" ELSE "P00"
    [] m.fam = "race_ok" -> "C07" [] m.fam = "merge" -> "C08"
    [] m.fam = "zip" -> IF m.n >= 1 THEN "C09" ELSE "P00"
    [] m.fam = "chain" -> "C10" [] m.fam = "future_group" -> "C11" [] m.fam = "stream_group" -> "C12"
    [] m.fam \in {"wait_until", "wait_until_stream"} -> "C19"
    [] m.fam = "co" -> (IF m.term = "for_each" THEN "C13" ELSE IF m.term \in {"try_for_each", "collect_result"} THEN "C14" ELSE "C15")
    [] OTHER -> "P00"

OnPanic(m, e) ==
  LET scripted == \E i \in DOMAIN m.pc : m.pc[i].r = "panic"
      b == IF e.at = "repoll" THEN {} ELSE
           V(e.at = "wake", "C01", <<"waker invocation panicked">>)
           \cup V(e.at = "drop", "C02", <<"panic while dropping the combinator">>)
           \cup V(e.at \in {"insert", "remove", "reserve", "extend"}, GP(m), <<"group operation panicked", e.at>>)
           \cup V(e.at = "new", FamProp(m), <<"construction panicked">>)
           \* a panic out of poll that no scripted child caused
           \cup V(e.at = "poll" /\ ~scripted, FamProp(m), <<"combinator panicked in poll", m.fam, m.cont, m.n>>)
  IN AddBad([m EXCEPT !.infire = FALSE,
                      !.phase = IF e.at \in {"poll", "repoll"} THEN "idle" ELSE @,
                      !.lastRet = IF e.at = "poll" THEN "final" ELSE @,
                      !.final = IF e.at = "poll" THEN TRUE ELSE @], b)

---------------------------------------------------------------------------
(* ret: per-family result rules *)

PcSome(m) == {i \in DOMAIN m.pc : m.pc[i].r = "some"}
PcOf(m, c) == {i \in DOMAIN m.pc : m.pc[i].c = c}
LastPc(m) == m.pc[Len(m.pc)]
PcVals(m) == {m.pc[i].v : i \in DOMAIN m.pc}

\* C02: whatever is returned was produced by a child, and is returned once, not after a drop
RetVals(e) == (IF e.v # -1 THEN {e.v} ELSE {}) \cup Range(e.out)
C02Ret(m, e) ==
  LET vs == RetVals(e) IN
     V(\E v \in vs : v < 0, "C02", <<"returned value is invalid (uninitialised / returned twice / already dropped)", e.v, e.out>>)
  \cup V(\E v \in vs : v >= 0 /\ v \notin m.prod, "C02", <<"returned value was not produced by a child", e.v, e.out>>)
  \cup V(\E v \in vs : v \in m.vdrp, "C02", <<"returned value had been dropped", e.v, e.out>>)
  \cup V(\E v \in vs : v \in m.vret, "C02", <<"value returned twice", e.v, e.out>>)
  \cup V(Cardinality(Range(e.out)) # Len(e.out), "C02", <<"same value twice in one output", e.out>>)

AllIn(m) == 0..(m.n - 1)

C04Ret(m, e) ==
  IF m.fam # "join" THEN {} ELSE
  IF e.r = "ready" THEN
       V(\E c \in AllIn(m) : ~Done(m, c), "C04", <<"join resolved before every child resolved">>)
    \cup V(Len(e.out) # m.n, "C04", <<"join output has the wrong length", Len(e.out), m.n>>)
    \cup V(Len(e.out) = m.n /\ \E c \in AllIn(m) : Done(m, c) /\ Len(m.ch[c].items) = 1 /\ e.out[c + 1] # m.ch[c].items[1],
           "C04", <<"join output is not positional", e.out>>)
  ELSE IF e.r = "pending" THEN
       V(\A c \in AllIn(m) : Done(m, c), "C04", <<"join returned Pending although every child has resolved">>)
  ELSE V(TRUE, "C04", <<"join returned", e.r>>)

C05Ret(m, e) ==
  IF m.fam # "try_join" THEN {} ELSE
  IF e.r = "ready" /\ e.ok THEN
       V(\E c \in AllIn(m) : ~Done(m, c) \/ ~m.ch[c].ok, "C05", <<"try_join Ok although not every child resolved Ok">>)
    \cup V(Len(e.out) # m.n, "C05", <<"try_join output has the wrong length", Len(e.out), m.n>>)
    \cup V(Len(e.out) = m.n /\ \E c \in AllIn(m) : Done(m, c) /\ Len(m.ch[c].items) = 1 /\ e.out[c + 1] # m.ch[c].items[1],
           "C05", <<"try_join output is not positional", e.out>>)
  ELSE IF e.r = "ready" THEN
       V(~m.errSeen, "C05", <<"try_join Err although no child failed">>)
    \cup V(m.errSeen /\ e.v # m.errFirst, "C05", <<"try_join error is not the first observed error", e.v, m.errFirst>>)
    \cup V(m.errSeen /\ m.errFirst \notin PcVals(m), "C05", <<"try_join reported the failure in a later poll">>)
  ELSE IF e.r = "pending" THEN
       V(m.errSeen, "C05", <<"try_join Pending although a child has failed">>)
    \cup V(\A c \in AllIn(m) : Done(m, c), "C05", <<"try_join Pending although every child has resolved">>)
  ELSE V(TRUE, "C05", <<"try_join returned", e.r>>)

C06Ret(m, e) ==
  IF m.fam # "race" THEN {} ELSE
  IF e.r = "ready" THEN
       V(~m.okSeen, "C06", <<"race resolved although no child resolved">>)
    \cup V(m.okSeen /\ e.v # m.okFirst, "C06", <<"race output is not the first child seen to resolve", e.v, m.okFirst>>)
    \cup V(m.okSeen /\ m.okFirst \notin PcVals(m), "C06", <<"race resolved in a later poll than the child">>)
  ELSE IF e.r = "pending" THEN
       V(m.okSeen, "C06", <<"race Pending although a child has resolved">>)
  ELSE V(TRUE, "C06", <<"race returned", e.r>>)

C07Ret(m, e) ==
  IF m.fam # "race_ok" THEN {} ELSE
  IF e.r = "ready" /\ e.ok THEN
       V(~m.okSeen, "C07", <<"race_ok Ok although no child succeeded">>)
    \cup V(m.okSeen /\ e.v # m.okFirst, "C07", <<"race_ok output is not the first success", e.v, m.okFirst>>)
    \cup V(m.okSeen /\ m.okFirst \notin PcVals(m), "C07", <<"race_ok resolved in a later poll than the success">>)
  ELSE IF e.r = "ready" THEN
       V(m.okSeen, "C07", <<"race_ok Err although a child succeeded">>)
    \cup V(\E c \in AllIn(m) : ~Done(m, c) \/ m.ch[c].ok, "C07", <<"race_ok Err before every child failed">>)
    \cup V(Len(e.out) # m.n, "C07", <<"aggregate error has the wrong length", Len(e.out), m.n>>)
    \cup V(Len(e.out) = m.n /\ \E c \in AllIn(m) : Done(m, c) /\ Len(m.ch[c].items) = 1 /\ e.out[c + 1] # m.ch[c].items[1],
           "C07", <<"aggregate error is not positional", e.out>>)
    \cup V(m.n > 0 /\ ~\E i \in DOMAIN m.pc : m.pc[i].r = "ready" /\ ~m.pc[i].ok,
           "C07", <<"race_ok Err not issued in the poll of the last failure">>)
  ELSE IF e.r = "pending" THEN
       V(m.okSeen, "C07", <<"race_ok Pending although a child succeeded">>)
    \cup V(\A c \in AllIn(m) : Done(m, c) /\ ~m.ch[c].ok, "C07", <<"race_ok Pending although every child failed">>)
  ELSE V(TRUE, "C07", <<"race_ok returned", e.r>>)

\* merge: every item exactly once, per-input order kept, an item in hand is yielded rather than Pending / None
\* (an implementation may take items from several inputs in one poll and hand them out one per poll: only what
\* the property states is demanded)
C08Ret(m, e) ==
  IF m.fam # "merge" THEN {} ELSE
  LET undeliv(c) == Len(m.ch[c].items) - m.ch[c].deliv
      y == IF e.r = "some" /\ e.v \in m.prod THEN m.vown[e.v] ELSE -1 IN
     V(e.r = "some" /\ y = -1, "C08", <<"merge yielded an item no input produced", e.v>>)
  \cup V(y >= 0 /\ (undeliv(y) = 0 \/ m.ch[y].items[m.ch[y].deliv + 1] # e.v),
         "C08", <<"an input's items were yielded twice or out of order", e.v>>)
  \cup V(e.r \in {"pending", "none"} /\ \E c \in AllIn(m) : undeliv(c) > 0,
         "C08", <<"merge returned without yielding an item that an input had produced", e.r>>)
  \cup V(e.r = "none" /\ \E c \in AllIn(m) : ~Done(m, c), "C08", <<"merge ended before every input ended">>)
  \cup V(e.r = "pending" /\ \A c \in AllIn(m) : Done(m, c), "C08", <<"merge Pending although every input ended">>)

C09Ret(m, e) ==
  IF m.fam # "zip" THEN {} ELSE
  LET k == m.nyield + 1
      nones == {i \in DOMAIN m.pc : m.pc[i].r = "none"} IN
     V(e.r = "some" /\ Len(e.out) # m.n, "C09", <<"row has the wrong length", Len(e.out)>>)
  \cup V(e.r = "some" /\ Len(e.out) = m.n /\
           \E c \in AllIn(m) : Len(m.ch[c].items) < k \/ e.out[c + 1] # m.ch[c].items[k],
         "C09", <<"k-th row is not the k-th item of every input", k, e.out>>)
  \cup V(e.r = "none" /\ nones = {}, "C09", <<"zip ended in a poll in which no input ended">>)
  \cup V(e.r # "none" /\ nones # {}, "C09", <<"an input ended but zip did not end in that poll", e.r>>)
  \cup V(\E c \in AllIn(m) : Len(m.ch[c].items) > m.nyield + (IF e.r = "some" THEN 1 ELSE 0) + 1,
         "C09", <<"more than one unmatched item taken from an input">>)

\* chain: the yielded items are the concatenation of the inputs' items in input order; None exactly when the last
\* input has ended and everything was yielded (that an input is untouched until every earlier one ended is checked
\* at cpoll).  Only what the property states is demanded: an implementation may hold an item for a later poll.
C10Ret(m, e) ==
  IF m.fam # "chain" THEN {} ELSE
  LET undeliv(c) == Len(m.ch[c].items) - m.ch[c].deliv
      holders == {c \in AllIn(m) : undeliv(c) > 0}
      y == IF e.r = "some" /\ e.v \in m.prod THEN m.vown[e.v] ELSE -1
      allDone == \A c \in AllIn(m) : Done(m, c) IN
     V(e.r = "some" /\ y = -1, "C10", <<"chain yielded something no input produced", e.v>>)
  \cup V(y >= 0 /\ (undeliv(y) = 0 \/ m.ch[y].items[m.ch[y].deliv + 1] # e.v \/ \E c \in holders : c < y),
         "C10", <<"chain yielded an item twice or out of order", e.v>>)
  \cup V(e.r = "none" /\ (~allDone \/ holders # {}), "C10", <<"chain ended before the last input ended and everything was yielded">>)
  \cup V(e.r = "pending" /\ allDone /\ holders = {}, "C10", <<"chain Pending although every input ended">>)

C19Ret(m, e) ==
  IF m.fam \notin {"wait_until", "wait_until_stream"} THEN {} ELSE
  LET inner == PcOf(m, 1) IN
  IF ~Done(m, 0) THEN
       V(e.r # "pending", "C19", <<"resolved before the deadline resolved">>)
    \cup V(inner # {}, "C19", <<"inner polled before the deadline resolved">>)
  ELSE
       V(inner = {}, "C19", <<"inner not polled in a poll at/after the deadline">>)
    \cup V(Cardinality(inner) > 1, "C19", <<"inner polled twice in one poll">>)
    \cup V(Cardinality(inner) = 1 /\
             LET a == m.pc[CHOOSE i \in inner : TRUE] IN
               ~( (a.r = "pending" /\ e.r = "pending")
                  \/ (a.r \in {"ready", "some"} /\ e.r = a.r /\ e.v = a.v)
                  \/ (a.r = "none" /\ e.r = "none") ),
           "C19", <<"result differs from the inner's answer in the same poll", e.r, e.v>>)

\* Groups: abstract set view (C11 / C12)
Members(m) == {c \in Kids(m) : m.ch[c].member /\ ~m.ch[c].work}

GroupRet(m, e) ==
  IF ~IsGroup(m.fam) THEN {} ELSE
  LET P == IF m.fam = "future_group" THEN "C11" ELSE "C12"
      \* members that ended in this poll (stream_group) are forgotten in this poll
      endedNow == {m.pc[i].c : i \in {j \in DOMAIN m.pc : m.pc[j].r = "none"}}
      after == Members(m) \ endedNow
      yielder == IF e.r = "some" /\ e.v \in m.prod THEN m.vown[e.v] ELSE -1
      afterY == IF m.fam = "future_group" /\ yielder >= 0 THEN after \ {yielder} ELSE after IN
     V(e.r = "some" /\ e.v \notin m.prod, P, <<"group yielded a value no member produced", e.v>>)
  \cup V(yielder >= 0 /\ ~m.ch[yielder].member, P, <<"group yielded for a member that is not (any longer) in the group", yielder>>)
  \cup V(yielder >= 0 /\ m.ch[yielder].deliv + 1 > Len(m.ch[yielder].items), P, <<"item yielded twice", e.v>>)
  \cup V(yielder >= 0 /\ m.ch[yielder].deliv + 1 <= Len(m.ch[yielder].items)
            /\ m.ch[yielder].items[m.ch[yielder].deliv + 1] # e.v, P, <<"member's items yielded out of order", e.v>>)
  \cup V(yielder >= 0 /\ m.cont = "keyed" /\ m.ch[yielder].key # -1 /\ e.key # m.ch[yielder].key,
         P, <<"item tagged with the wrong key", e.key, m.ch[yielder].key>>)
  \cup V(e.r = "none" /\ after # {}, P, <<"group returned None although members remain", after>>)
  \cup V(e.r = "pending" /\ after = {}, P, <<"group returned Pending although it is empty">>)
  \cup V(m.fam = "stream_group" /\ \E c \in endedNow : m.ch[c].drops = 0,
         "C12", <<"a member that ended was not dropped in that poll", endedNow>>)

\* C17: fairness of merge for a designated always-ready input x
C17Ret(m, e) ==
  IF m.fam # "merge" \/ m.x < 0 \/ e.r # "some" \/ e.v \notin m.prod THEN {} ELSE
  LET fromX == m.vown[e.v] = m.x
      run == IF fromX THEN 0 ELSE m.sinceX + 1 IN
  V(~Done(m, m.x) /\ run >= m.n, "C17", <<"always-ready input starved for n consecutive yields", m.x, run>>)

\* C20 part 1: concurrent evaluation
C20Ret(m, e) ==
  IF ~IsConcFam(m.fam) \/ e.r # "pending" THEN {} ELSE
  V(\E c \in Inputs(m) : m.ch[c].live /\ (IsGroup(m.fam) => m.ch[c].member) /\ m.ch[c].polls = 0,
    "C20", <<"Pending returned although an owned child was never polled">>)

\* Concurrent streams (C13 / C14 / C15): the terminal result
WorkKids(m) == {c \in Kids(m) : m.ch[c].work}
TermKids(m) == {c \in WorkKids(m) : m.ch[c].layer = -1}
\* the source items that must be processed: the first min(take, len)
Expected(m) ==
  LET its == m.ch[0].items
      k == IF m.take >= 0 /\ m.take < Len(its) THEN m.take ELSE Len(its)
  IN {its[i] : i \in 1..k}
SourceExhausted(m) == Done(m, 0) \/ (m.take >= 0 /\ Len(m.ch[0].items) >= m.take)
FinalOf(m, s) == IF s \in DOMAIN m.cur THEN m.cur[s] ELSE s
CoProp(m) == IF m.term = "for_each" THEN "C13" ELSE IF m.term \in {"try_for_each", "collect_result"} THEN "C14" ELSE "C15"

CoRet(m, e) ==
  IF m.fam # "co" \/ e.r # "ready" THEN {} ELSE
  LET W == WorkKids(m)
      unfinished == {c \in W : m.ch[c].ans # "done"}
      fallible == m.term \in {"try_for_each", "collect_result"}
      success == ~fallible \/ e.ok
      exp == Expected(m)
      hasTermLayer == m.term \in {"for_each", "try_for_each", "collect_result"}
      termItems == {m.ch[c].item : c \in TermKids(m)}
      errs == {m.ch[c].items[1] : c \in {d \in W : m.ch[d].ans = "done" /\ ~m.ch[d].ok /\ Len(m.ch[d].items) = 1}}
      P == CoProp(m) IN
     V(success /\ unfinished # {}, P, <<"resolved while per-item futures are still in flight", unfinished>>)
  \cup V(success /\ ~SourceExhausted(m), P, <<"resolved before the source was exhausted">>)
  \cup V(success /\ hasTermLayer /\ termItems # exp, P, <<"the closure was not invoked exactly for the expected items", termItems, exp>>)
  \cup V(success /\ \E L \in 0..(m.nmaps - 1) : {m.ch[c].item : c \in {d \in W : m.ch[d].layer = L}} # exp,
         "C15", <<"a map closure was not invoked exactly once per processed item">>)
  \cup V(fallible /\ e.ok /\ m.errSeen, "C14", <<"Ok although a per-item future failed">>)
  \cup V(fallible /\ ~e.ok /\ ~m.errSeen, "C14", <<"Err although no per-item future failed">>)
  \cup V(fallible /\ ~e.ok /\ m.errSeen /\ e.v \notin errs, "C14", <<"error returned is not one a per-item future returned", e.v>>)
  \cup V(m.term \in {"collect", "collect_result"} /\ success /\
           (Len(e.out) # Cardinality(exp) \/ Range(e.out) # {FinalOf(m, s) : s \in exp}),
         IF m.term = "collect" THEN "C15" ELSE "C14", <<"collected output is not the multiset of per-item outputs", e.out>>)

OnRet(m, e) ==
  LET b == C02Ret(m, e) \cup C04Ret(m, e) \cup C05Ret(m, e) \cup C06Ret(m, e) \cup C07Ret(m, e)
           \cup C08Ret(m, e) \cup C09Ret(m, e) \cup C10Ret(m, e) \cup C19Ret(m, e)
           \cup GroupRet(m, e) \cup C17Ret(m, e) \cup C20Ret(m, e) \cup CoRet(m, e)
           \cup V(m.phase # "inpoll", "H00", <<"harness: ret outside poll">>)
      isFinal == e.r \in {"ready", "none"} /\ ~IsGroup(m.fam)
      lr == CASE e.r = "pending" -> "pending" [] e.r = "some" -> "item" [] OTHER -> "final"
      \* yielded item bookkeeping
      y == IF e.r = "some" /\ e.v \in m.prod THEN m.vown[e.v] ELSE -1
      endedNow == {m.pc[i].c : i \in {j \in DOMAIN m.pc : m.pc[j].r = "none"}}
      ch1 == [c \in Kids(m) |->
                LET r == m.ch[c] IN
                [r EXCEPT !.deliv = IF c = y THEN @ + 1 ELSE @,
                          !.member = IF IsGroup(m.fam) /\
                                        ((m.fam = "future_group" /\ c = y) \/ (m.fam = "stream_group" /\ c \in endedNow))
                                     THEN FALSE ELSE @]]
      fromX == y >= 0 /\ y = m.x
      m1 == [m EXCEPT !.phase = "idle", !.lastRet = lr, !.final = @ \/ isFinal,
                      !.ch = ch1,
                      !.vret = @ \cup {v \in RetVals(e) : v >= 0},
                      !.nyield = IF e.r = "some" THEN @ + 1 ELSE @,
                      !.sinceX = IF e.r = "some" THEN (IF fromX THEN 0 ELSE @ + 1) ELSE @]
      arm == A(e.r = "pending", "ret.pending") \cup A(e.r = "some", "ret.item") \cup A(lr = "final", "ret.final")
             \cup A(e.r = "ready" /\ ~e.ok, "ret.err")
             \cup A(e.r = "pending" /\ C01Owed(m) # {}, "C01.midpoll_wake_at_pending")
             \cup A(m.x >= 0 /\ e.r = "some", "C17.yield")
             \cup {FamProp(m) \o ".ret." \o e.r \o (IF e.ok THEN "" ELSE ".err")}
             \cup A(IsConcFam(m.fam) /\ e.r = "pending" /\ Cardinality(LiveKids(m)) >= 2, "C20.pending_multi")
             \cup A(m.sub /\ e.r = "pending" /\ \E c \in Kids(m) : m.ch[c].live /\ m.ch[c].ans = "pending" /\ PcOf(m, c) = {} /\ m.pc # <<>>,
                    "C16.selective")
             \cup A(m.fam = "zip" /\ \E c \in Kids(m) : Len(m.ch[c].items) > m.nyield + (IF e.r = "some" THEN 1 ELSE 0), "C09.buffered")
             \cup A(m.fam \in {"wait_until", "wait_until_stream"} /\ ~Done(m, 0), "C19.before_deadline")
             \cup A(m.fam \in {"wait_until", "wait_until_stream"} /\ Done(m, 0), "C19.after_deadline")
  IN Arm(AddBad(m1, b \cup (IF e.r = "pending" /\ ~m.thr THEN C01Check(m1, "end of poll") ELSE {})), arm)

---------------------------------------------------------------------------
(* quiesce: progress (C01) and completion in the presence of never-children (C20 part 2) *)
OnQuiesce(m, e) ==
  LET parked == m.lastRet = "pending" /\ m.phase = "idle"
      outstanding == {c \in Kids(m) : m.ch[c].live /\ m.ch[c].ans = "pending" /\ ~m.ch[c].firedL}
      \* (a combinator over zero inputs has nobody who could wake it: outside C01's quantifier)
      b01 == V(parked /\ outstanding = {} /\ (m.n >= 1 \/ IsGroup(m.fam) \/ m.fam = "co"), "C01",
               <<"combinator left pending with no wake-up outstanding", m.fam, m.cont, m.n>>)
      X == m.never
      ins == Inputs(m)
      nonX == {c \in ins : c \notin X}
      active == m.phase = "idle" /\ ~m.final
      b20 ==
        IF ~active THEN {} ELSE
        CASE m.fam = "join" ->
               V(\E c \in nonX : ~Done(m, c), "C20", <<"a sibling of a never-completing child did not run to completion">>)
          [] m.fam = "try_join" ->
               V(\E c \in nonX : ~Done(m, c), "C20", <<"a sibling of a never-completing child did not run to completion">>)
          [] m.fam = "race" ->
               V(nonX # {}, "C20", <<"race still pending although a child could resolve">>)
          [] m.fam = "race_ok" ->
               V(\E c \in nonX : ~Done(m, c), "C20", <<"a sibling of a never-completing child did not run to completion">>)
          [] m.fam = "merge" ->
               V(\E c \in nonX : ~Done(m, c), "C20", <<"an input was not drained because a sibling never completes">>)
          [] m.fam = "future_group" ->
               V(\E c \in nonX : m.ch[c].member, "C20", <<"a member was not driven to completion / yielded">>)
          [] m.fam = "stream_group" ->
               V(\E c \in nonX : m.ch[c].member, "C20", <<"a member was not drained">>)
          [] OTHER -> {}
      \* exactly-once delivery for the groups (C11 / C12): nothing produced is left undelivered
      bg == IF ~IsGroup(m.fam) \/ m.phase # "idle" THEN {} ELSE
            V(\E c \in ins : m.ch[c].deliv < Len(m.ch[c].items) /\ m.ch[c].drops = 0,
              IF m.fam = "future_group" THEN "C11" ELSE "C12", <<"an output produced by a member was never yielded">>)
      arm == A(parked, "quiesce.parked") \cup A(active /\ X # {}, "C20.never")
             \cup A(m.final, "quiesce.final")
  IN Arm(AddBad(m, b01 \cup b20 \cup bg), arm)

---------------------------------------------------------------------------
(* ownership ledger (C02) *)
OnDrop(m, e) ==
  AddBad([m EXCEPT !.phase = "dropping"],
         V(m.phase \notin {"idle", "new"}, "H00", <<"harness: drop in phase", m.phase>>))

OnCdrop(m, e) ==
  LET c == e.c
      known == c \in Kids(m)
      b == V(~e.ok, "C02", <<"child dropped twice or dropped from uninitialised storage", c>>)
           \cup V(known /\ m.ch[c].drops >= 1, "C02", <<"child dropped twice", c>>)
           \cup V(~known /\ c >= 0, "C02", <<"unknown child dropped", c>>)
           \* race: the losers are dropped together with the race future, unfinished
      nch == IF known THEN [m.ch EXCEPT ![c].drops = @ + 1, ![c].live = FALSE] ELSE m.ch
  IN AddBad([m EXCEPT !.ch = nch, !.lastDrop = c], b)

OnVdrop(m, e) ==
  LET v == e.v
      b == V(~e.ok, "C02", <<"value dropped twice / dropped from uninitialised storage", v>>)
           \cup V(e.ok /\ v \notin m.prod, "C02", <<"value dropped that no child produced", v>>)
           \cup V(v \in m.vdrp, "C02", <<"value dropped twice", v>>)
           \cup V(v \in m.vret, "C02", <<"value dropped although it was returned to the caller", v>>)
  IN AddBad([m EXCEPT !.vdrp = @ \cup {v}], b)

OnDropped(m, e) ==
  LET b == V(\E c \in Kids(m) : m.ch[c].drops = 0, "C02",
             <<"a child outlived the combinator it was given to", {c \in Kids(m) : m.ch[c].drops = 0}>>)
           \* C05: after a failure the values the siblings had produced are dropped (neither returned nor kept)
           \cup V(m.fam = "try_join" /\ m.errSeen /\ \E v \in m.prod : v \notin m.vret /\ v \notin m.vdrp,
                  "C05", <<"a value produced by a sibling of the failed child was not dropped with try_join",
                           {v \in m.prod : v \notin m.vret /\ v \notin m.vdrp}>>)
           \* C09: items taken from an input and never matched into a row are dropped, not kept
           \cup V(m.fam = "zip" /\ \E v \in m.prod : v \notin m.vret /\ v \notin m.vdrp,
                  "C09", <<"an unmatched item was not dropped with the zip stream",
                           {v \in m.prod : v \notin m.vret /\ v \notin m.vdrp}>>)
      \* C06: losers are dropped unfinished with the race future (never polled after the win is C06 at cpoll)
      arm == A(\E c \in Kids(m) : m.ch[c].ans \in {"pending", "new", "some"}, "C02.drop_midflight")
             \cup A(\E v \in m.prod : v \notin m.vret, "C02.unreturned_values")
  IN Arm(AddBad([m EXCEPT !.phase = "dropped"], b), arm)

OnEnd(m, e) ==
  LET leaked == {v \in m.prod : v \notin m.vret /\ v \notin m.vdrp}
      b == V(m.phase = "dropped" /\ leaked # {}, "C02", <<"value neither returned nor dropped (leak)", leaked>>)
  IN AddBad(m, b)

---------------------------------------------------------------------------
(* group operations (C11 / C12) *)
OnInsert(m, e) ==
  LET liveKeys == {m.ch[c].key : c \in Members(m)} \ {-1}
      b == V(e.key # -1 /\ e.key \in liveKeys, GP(m), <<"insert returned a key that is already live", e.key>>)
           \cup V(m.phase # "idle", "H00", <<"harness: insert in phase", m.phase>>)
      \* the slot's earlier tenants' wakers count for C16 ("an earlier member that held the same key")
      prevW == UNION {m.ch[c].wids : c \in {d \in Kids(m) : m.ch[d].key = e.key /\ e.key # -1}}
      nc == [NewChild(e.key, FALSE) EXCEPT !.wids = prevW]
  IN Arm(AddBad([m EXCEPT !.ch = (e.c :> nc) @@ m.ch], b),
         A(\E c \in Kids(m) : m.ch[c].key = e.key /\ e.key # -1, "group.slot_reuse")
         \cup A(m.lastRet = "final", "group.refill_after_none"))

\* Members added through `extend` have no key the caller could name (key = -1).
Unnamed(m) == {c \in Members(m) : m.ch[c].key = -1}

OnRemove(m, e) ==
  LET named == {c \in Members(m) : m.ch[c].key = e.key}
      \* a key the caller holds may have been re-used by an unnamed member: the member
      \* removed is then the one whose drop was observed just before
      holders == IF named # {} THEN named
                 ELSE IF e.res /\ m.lastDrop \in Unnamed(m) THEN {m.lastDrop} ELSE {}
      b == V(e.res /\ holders = {}, GP(m), <<"remove returned true for a key that is not live", e.key>>)
           \cup V(~e.res /\ named # {}, GP(m), <<"remove returned false for a live key", e.key>>)
           \cup V(e.res /\ \E c \in holders : m.ch[c].drops = 0, GP(m), <<"removed member was not dropped at removal", e.key>>)
      nch == [c \in Kids(m) |-> IF c \in holders /\ e.res THEN [m.ch[c] EXCEPT !.member = FALSE] ELSE m.ch[c]]
  IN Arm(AddBad([m EXCEPT !.ch = nch], b), A(e.res, "group.remove_live") \cup A(~e.res, "group.remove_dead"))

OnView(m, e) ==
  LET mem == Members(m)
      liveKeys == {m.ch[c].key : c \in mem} \ {-1}
      b == V(e.len # Cardinality(mem), GP(m), <<"len() does not equal the number of live members", e.len, Cardinality(mem)>>)
           \cup V(e.empty # (mem = {}), GP(m), <<"is_empty() wrong", e.empty>>)
           \cup V(~(liveKeys \subseteq Range(e.has)), GP(m), <<"contains_key() false for a live key", e.has, liveKeys>>)
           \cup V(Cardinality(Range(e.has) \ liveKeys) > Cardinality(Unnamed(m)), GP(m),
                  <<"contains_key() true for a key that is not live", e.has, liveKeys>>)
           \cup V(e.cap < e.len, GP(m), <<"capacity below len", e.cap, e.len>>)
  IN AddBad(m, b)

---------------------------------------------------------------------------
(* concurrent streams: creation of a per-item work future (a closure was invoked) *)
OnWnew(m, e) ==
  LET W == WorkKids(m)
      inflight == {c \in TermKids(m) : m.ch[c].ans # "done" /\ m.ch[c].drops = 0}
      its == m.ch[0].items
      pos == IF \E i \in DOMAIN its : its[i] = e.src
               THEN CHOOSE i \in DOMAIN its : its[i] = e.src ELSE 0
      dup == \E c \in W : m.ch[c].item = e.src /\ m.ch[c].layer = e.layer
      P == IF e.layer >= 0 THEN "C15" ELSE CoProp(m)
      b == V(e.layer = -1 /\ m.limit > 0 /\ m.term \in {"for_each", "try_for_each"} /\ Cardinality(inflight) + 1 > m.limit,
             "C13", <<"more closure futures in flight than the concurrency limit", Cardinality(inflight) + 1, m.limit>>)
           \cup V(dup, P, <<"a closure was invoked twice for one item", e.layer, e.src>>)
           \cup V(pos = 0, P, <<"a closure was invoked for an item the source did not produce", e.src>>)
           \cup V(e.idx >= 0 /\ pos > 0 /\ e.idx # pos - 1, "C15", <<"enumerate index is not the item's source position", e.idx, pos - 1>>)
           \cup V(m.take >= 0 /\ pos > m.take, "C15", <<"take(n) processed an item beyond the first n", pos, m.take>>)
           \cup V(e.v < 0, "C02", <<"closure received an invalid value", e.v>>)
           \cup V(e.v >= 0 /\ e.v \notin m.prod, "C02", <<"closure received a value no child produced", e.v>>)
           \cup V(e.v \in m.vret \/ e.v \in m.vdrp, "C02", <<"closure received a value that was already returned or dropped", e.v>>)
      nc == [NewChild(-1, TRUE) EXCEPT !.item = e.src, !.idx = e.idx, !.layer = e.layer]
      arm == A(m.limit > 0 /\ e.layer = -1 /\ Cardinality(inflight) + 1 = m.limit, "C13.at_limit")
             \cup A(e.idx >= 0, "C15.enumerate") \cup A(m.take >= 0, "C15.take") \cup A(e.layer >= 0, "C15.map")
  IN Arm(AddBad([m EXCEPT !.ch = (e.c :> nc) @@ m.ch,
                          !.vret = IF e.v >= 0 THEN @ \cup {e.v} ELSE @], b), arm)

---------------------------------------------------------------------------
MonStep(m, e) ==
  CASE e.e = "built"   -> OnBuilt(m, e)
    [] e.e = "poll"    -> OnPoll(m, e)
    [] e.e = "cpoll"   -> OnCpoll(m, e)
    [] e.e = "cret"    -> OnCret(m, e)
    [] e.e = "fire"    -> OnFire(m, e)
    [] e.e = "pwake"   -> OnPwake(m, e)
    [] e.e = "fired"   -> OnFired(m, e)
    [] e.e = "ret"     -> OnRet(m, e)
    [] e.e = "quiesce" -> OnQuiesce(m, e)
    [] e.e = "drop"    -> OnDrop(m, e)
    [] e.e = "cdrop"   -> OnCdrop(m, e)
    [] e.e = "vdrop"   -> OnVdrop(m, e)
    [] e.e = "dropped" -> OnDropped(m, e)
    [] e.e = "end"     -> OnEnd(m, e)
    [] e.e = "panic"   -> OnPanic(m, e)
    [] e.e = "insert"  -> OnInsert(m, e)
    [] e.e = "remove"  -> OnRemove(m, e)
    [] e.e = "view"    -> OnView(m, e)
    [] e.e = "wnew"    -> OnWnew(m, e)
    [] e.e = "repoll"  -> OnRepoll(m, e)
    [] e.e = "tstart"  -> OnTstart(m, e)
    [] e.e = "tfire"   -> OnTfire(m, e)
    [] e.e = "tfired"  -> OnTfired(m, e)
    [] e.e = "tjoin"   -> OnTjoin(m, e)
    [] e.e = "reret"   -> OnReret(m, e)
    [] OTHER           -> m

RECURSIVE MonSteps(_, _)
MonSteps(m, es) == IF es = <<>> THEN m ELSE MonSteps(MonStep(m, Head(es)), Tail(es))

=============================================================================
