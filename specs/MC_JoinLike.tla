---------------------------- MODULE MC_JoinLike ----------------------------
EXTENDS JoinLike, Json

Bounds(rec, mp, mf, ms, sp, mi, dr, pa, th) ==
  [rec |-> rec, maxPend |-> mp, maxFire |-> mf, maxStale |-> ms, maxSpur |-> sp, maxInFire |-> mi,
   drop |-> dr, panic |-> pa, threads |-> th]

Mk(kind, variant, n, mode, never, b) ==
  [kind |-> kind, variant |-> variant, n |-> n, mode |-> mode, never |-> never] @@ b

Kinds == {"join", "try_join"}
Variants == {"arr", "tup"}
Modes == {"std", "pollall"}

\* quick: N = 2 with cancellation, panic and thread interleavings; N = 3 without
CfgsQuick ==
  {[repoll |-> TRUE] @@ Mk(k, v, 2, md, <<>>, Bounds(FALSE, 1, 1, 0, 0, 0, FALSE, FALSE, FALSE)) : k \in Kinds, v \in Variants, md \in Modes} \cup
  {[reuse |-> TRUE] @@ Mk(k, v, 2, md, <<>>, Bounds(FALSE, 1, 1, 0, 1, 0, FALSE, FALSE, FALSE)) : k \in Kinds, v \in Variants, md \in Modes} \cup
  {Mk(k, v, 2, md, <<>>, Bounds(FALSE, 2, 2, 1, 1, 1, TRUE, TRUE, TRUE)) : k \in Kinds, v \in Variants, md \in Modes}
  \cup {Mk(k, v, 2, md, <<1>>, Bounds(FALSE, 1, 2, 1, 1, 1, FALSE, FALSE, FALSE)) : k \in Kinds, v \in Variants, md \in Modes}
  \cup {Mk(k, v, 3, "std", <<>>, Bounds(FALSE, 1, 2, 1, 1, 1, FALSE, FALSE, FALSE)) : k \in Kinds, v \in Variants}
  \cup {Mk(k, v, n, md, <<>>, Bounds(FALSE, 1, 1, 0, 0, 0, FALSE, FALSE, FALSE)) : k \in Kinds, v \in Variants, md \in Modes, n \in {0, 1}}

CfgsThorough ==
  CfgsQuick \cup
  {Mk(k, v, 3, md, nv, Bounds(FALSE, 2, 3, 1, 1, 2, TRUE, TRUE, TRUE)) : k \in Kinds, v \in Variants, md \in Modes, nv \in {<<>>, <<0>>, <<1, 2>>}}
  \cup {Mk(k, v, 4, "std", <<>>, Bounds(FALSE, 1, 2, 1, 1, 1, FALSE, FALSE, FALSE)) : k \in Kinds, v \in Variants}

\* generation of vectors: history recorded, no thread-only steps
CfgsGen ==
  {Mk(k, v, 2, md, <<>>, Bounds(TRUE, 2, 2, 1, 1, 1, TRUE, TRUE, FALSE)) : k \in Kinds, v \in Variants, md \in Modes}
  \cup {Mk(k, v, 3, md, <<>>, Bounds(TRUE, 1, 2, 1, 1, 1, TRUE, FALSE, FALSE)) : k \in Kinds, v \in Variants, md \in Modes}
  \cup {Mk(k, v, 2, md, <<0>>, Bounds(TRUE, 1, 2, 0, 1, 1, FALSE, FALSE, FALSE)) : k \in Kinds, v \in Variants, md \in Modes}

CfgsGenQ ==
  {Mk(k, v, 2, md, <<>>, Bounds(TRUE, 1, 2, 1, 1, 1, TRUE, TRUE, FALSE)) : k \in Kinds, v \in Variants, md \in Modes}
  \cup {Mk(k, v, 2, md, <<0>>, Bounds(TRUE, 1, 1, 0, 0, 1, FALSE, FALSE, FALSE)) : k \in Kinds, v \in Variants, md \in Modes}
  \cup {Mk(k, v, n, md, <<>>, Bounds(TRUE, 1, 1, 0, 1, 1, TRUE, FALSE, FALSE)) : k \in Kinds, v \in Variants, md \in Modes, n \in {0, 1}}

CfgsLiveQ ==
  {Mk(k, v, 2, md, <<>>, Bounds(FALSE, 1, 1, 1, 1, 1, FALSE, FALSE, FALSE)) : k \in Kinds, v \in Variants, md \in Modes}

\* liveness: no cancellation, no budgets that could starve the run
CfgsLive ==
  {Mk(k, v, 2, md, <<>>, Bounds(FALSE, 2, 1, 1, 1, 1, FALSE, FALSE, FALSE)) : k \in Kinds, v \in Variants, md \in Modes}
  \cup {Mk(k, v, 3, md, <<>>, Bounds(FALSE, 1, 1, 0, 0, 1, FALSE, FALSE, FALSE)) : k \in Kinds, v \in Variants, md \in Modes}
\* export: one line per behaviour that reaches the end of a run (recorded, single-threaded ones only)
ExportOK ==
  (pc' = "end" /\ pc # "end" /\ ~conc' /\ cfg.rec) =>
     PrintT("VEC " \o ToJson([cfg |-> cfg, hist |-> hist']))
=============================================================================
