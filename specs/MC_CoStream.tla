----------------------------- MODULE MC_CoStream -----------------------------
EXTENDS CoStream, Json

B(rec, mp, mi, mf, ms, sp, mif, dr, pa) ==
  [rec |-> rec, maxPend |-> mp, maxItems |-> mi, maxFire |-> mf, maxStale |-> ms, maxSpur |-> sp, maxInFire |-> mif,
   drop |-> dr, panic |-> pa, threads |-> FALSE]

Ad(k, n) == [k |-> k, n |-> n]
RECURSIVE TakeOf(_)
TakeOf(st) == IF st = <<>> THEN -1 ELSE
              LET r == TakeOf(Tail(st)) IN
              IF Head(st).k = "take" THEN (IF r < 0 \/ Head(st).n < r THEN Head(st).n ELSE r) ELSE r
RECURSIVE LimitOf(_)
LimitOf(st) == IF st = <<>> THEN 0 ELSE IF st[Len(st)].k = "limit" THEN st[Len(st)].n ELSE LimitOf(SubSeq(st, 1, Len(st) - 1))

MkN(cont, n, stack, term, feat, never, b) ==
  [fam |-> "co", cont |-> cont, n |-> n, feat |-> feat, sub |-> TRUE, rdy |-> TRUE, stream |-> TRUE,
   fallible |-> FALSE, group |-> FALSE, never |-> never, x |-> -1, conts |-> <<cont>>,
   stack |-> stack, term |-> term, limit |-> LimitOf(stack), take |-> TakeOf(stack),
   nmaps |-> Cardinality({i \in DOMAIN stack : stack[i].k = "map"})] @@ b

Mk(cont, n, stack, term, feat, b) == MkN(cont, n, stack, term, feat, <<>>, b)

Terms == {"for_each", "try_for_each", "collect", "collect_result"}

\* what the source stream reports as its size hint: <<lower, upper or -1>> (exact, absent, over-estimated, "anything")
SrcHints == {<<2, 2>>, <<0, -1>>, <<0, 5>>, <<0, 1000000>>}
CfgsHint(rec, feats) ==
  {[srcHint |-> h] @@ Mk("co", 0, st, "collect", f, B(rec, 0, 1, 0, 0, 0, 0, FALSE, FALSE)) : h \in SrcHints, f \in feats,
      st \in {<<Ad("take", 1), Ad("limit", 2), Ad("map", 0)>>, <<Ad("limit", 3), Ad("take", 3), Ad("limit", 0)>>}}

CfgsQuick ==
  {Mk("co", 0, <<Ad("limit", 1)>>, t, "std", B(FALSE, 1, 2, 1, 0, 0, 1, TRUE, FALSE)) : t \in {"for_each", "try_for_each"}}
  \cup {Mk("co", 0, <<Ad("map", 0)>>, t, "std", B(FALSE, 1, 2, 1, 0, 0, 0, FALSE, FALSE)) : t \in {"collect", "collect_result"}}
  \cup {Mk("vec", 2, <<Ad("enumerate", 0), Ad("take", 1)>>, t, "std", B(FALSE, 1, 0, 1, 0, 0, 0, FALSE, TRUE)) : t \in Terms}
  \cup {Mk("vec", 2, <<Ad("take", 0)>>, "collect", "std", B(FALSE, 1, 0, 1, 0, 0, 0, FALSE, FALSE))}
  \cup {MkN("co", 0, <<Ad("limit", 2)>>, t, "std", nv, B(FALSE, 1, 2, 1, 0, 1, 0, FALSE, FALSE)) : t \in {"for_each", "collect_result"}, nv \in {<<0>>, <<1>>}}
  \cup {Mk("co", 0, <<Ad("limit", 2), Ad("map", 0)>>, t, "std", B(FALSE, 1, 2, 2, 1, 0, 1, FALSE, FALSE)) : t \in {"for_each", "try_for_each"}}
  \cup CfgsHint(FALSE, {"std"})

CfgsThorough == CfgsQuick \cup
  {Mk("co", 0, st, t, "std", B(FALSE, 1, 2, 2, 1, 1, 1, TRUE, TRUE)) : t \in Terms,
      st \in {<<Ad("limit", 1), Ad("map", 0)>>, <<Ad("map", 0), Ad("limit", 2)>>, <<Ad("enumerate", 0), Ad("map", 0), Ad("take", 1)>>}}

CfgsGenQ ==
  {Mk("co", 0, <<Ad("limit", 1)>>, t, f, B(TRUE, 1, 2, 1, 0, 0, 0, TRUE, FALSE)) : t \in {"for_each", "try_for_each"}, f \in {"std", "alloc"}}
  \cup {Mk("co", 0, <<Ad("map", 0)>>, t, f, B(TRUE, 1, 1, 1, 0, 0, 0, FALSE, FALSE)) : t \in {"collect", "collect_result"}, f \in {"std", "alloc"}}
  \cup {Mk("vec", 2, <<Ad("enumerate", 0), Ad("take", 1)>>, t, f, B(TRUE, 1, 0, 1, 0, 0, 0, FALSE, FALSE)) : t \in Terms, f \in {"std", "alloc"}}
  \cup {MkN("co", 0, <<Ad("limit", 2)>>, t, f, nv, B(TRUE, 1, 2, 1, 0, 0, 0, FALSE, FALSE)) : t \in {"for_each", "collect_result"}, f \in {"std", "alloc"}, nv \in {<<0>>, <<1>>}}
  \cup {Mk("co", 0, <<Ad("limit", 2), Ad("map", 0)>>, t, f, B(TRUE, 1, 2, 1, 0, 0, 1, FALSE, FALSE)) : t \in {"for_each", "try_for_each"}, f \in {"std", "alloc"}}
  \cup CfgsHint(TRUE, {"std", "alloc"})
CfgsGen == CfgsGenQ \cup
  {Mk("co", 0, st, t, f, B(TRUE, 1, 2, 1, 0, 0, 1, TRUE, TRUE)) : t \in Terms, f \in {"std", "alloc"},
      st \in {<<Ad("limit", 1), Ad("map", 0)>>, <<Ad("enumerate", 0), Ad("map", 0), Ad("take", 1)>>}}

CfgsLiveQ == {Mk("co", 0, <<Ad("limit", 1)>>, t, "std", B(FALSE, 1, 2, 1, 0, 0, 0, FALSE, FALSE)) : t \in {"for_each", "try_for_each"}}
CfgsLive == {Mk("co", 0, <<Ad("limit", 1), Ad("map", 0)>>, t, "std", B(FALSE, 1, 2, 1, 0, 0, 1, FALSE, FALSE)) : t \in Terms}

ExportOK == ExportEnd => PrintT("VEC " \o ToJson([cfg |-> cfg, hist |-> hist']))
=============================================================================
