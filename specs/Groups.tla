------------------------------- MODULE Groups -------------------------------
(***************************************************************************)
(* Implementation-shaped (L2) specification of                             *)
(*   FutureGroup (+ Keyed)   src/future/future_group.rs   (cfg.fam =       *)
(*                           "future_group")                               *)
(*   StreamGroup (+ Keyed)   src/stream/stream_group.rs   (cfg.fam =       *)
(*                           "stream_group")                               *)
(* on top of slab::Slab (modelled as its LIFO free list), a BTreeSet of    *)
(* keys, PollVec states and WakerVec / ReadinessVec (utils/wakers/vec).    *)
(* cfg.n is the initial capacity (with_capacity); cfg.cont is "plain" or   *)
(* "keyed" (the keyed view reports the key with every item).               *)
(*                                                                         *)
(* fs: slen (slab entries.len), free (stack of vacant slots, top first),   *)
(*     keys, st (PollState per slot "P" | "N"), cap, owner (slot -> child),*)
(*     ever (keys ever returned by insert, in order: what the caller can   *)
(*     name), queue (StreamGroup's key_removal_queue), scan (keys still to *)
(*     visit in this poll), doneCount, streamCount, nins, nrem, nres       *)
(***************************************************************************)
EXTENDS L2Env

IsSG == cfg.fam = "stream_group"
Keyed == cfg.cont = "keyed"

FsInit(c) == [slen |-> 0, free |-> <<>>, keys |-> {}, st |-> [i \in 0..(c.n - 1) |-> "N"], cap |-> c.n,
              owner |-> [i \in 0..(c.n - 1) |-> -1], ever |-> <<>>, queue |-> <<>>, scan |-> <<>>,
              doneCount |-> 0, streamCount |-> 0, nins |-> 0, nrem |-> 0, nres |-> 0]
InitFor(c) == InitEnv(c, 0, FsInit(c))
Init == \E c \in Cfgs : InitFor(c)

GLen(f) == Cardinality(f.keys \ Range(f.queue))          \* slab.len(): occupied entries
Occupied(f) == f.keys \ Range(f.queue)

EvView(f) == [e |-> "view", len |-> GLen(f), empty |-> (GLen(f) = 0), cap |-> f.cap,
              has |-> SelectSeq(f.ever, LAMBDA k : k \in f.keys)]

\* reserve(additional): future_group.rs `reserve`; returns <<fs, rd>>
Reserve(f, r, a) ==
  IF GLen(f) + a < f.cap THEN <<f, r>>
  ELSE LET nc == f.cap + a IN
       <<[f EXCEPT !.cap = nc,
                   !.st = [i \in 0..(nc - 1) |-> IF i < f.cap THEN f.st[i] ELSE "N"],
                   !.owner = [i \in 0..(nc - 1) |-> IF i < f.cap THEN f.owner[i] ELSE -1]],
         RResize(r, nc)>>

\* the slab / key-set / state / readiness part of one `insert` (future_group.rs `insert`): <<fs, rd, key>>
InsertCore(f, r, c) ==
  LET g == IF f.cap <= GLen(f) THEN Reserve(f, r, f.cap * 2 + 1) ELSE <<f, r>>
      f1 == g[1]
      key == IF f1.free # <<>> THEN Head(f1.free) ELSE f1.slen
      f2 == [f1 EXCEPT !.free = IF f1.free # <<>> THEN Tail(@) ELSE @,
                       !.slen = IF f1.free # <<>> THEN @ ELSE @ + 1,
                       !.keys = @ \cup {key}, !.st[key] = "P", !.owner[key] = c]
  IN <<f2, RSet(g[2], key), key>>

---------------------------------------------------------------------------
(* operations of the owner between polls *)
\* Extend::extend (FutureGroup only): reserve(size_hint upper bound), then insert each; the caller learns no keys
\* (the harness reports them as -1)
\* hint: the upper bound of the iterator's size_hint (None counts as 0): exact, absent (from_fn) or too large by two
Hints(cnt) == {cnt, 0, cnt + 2}
ExtendOp(cnt, hint) ==
  /\ pc = "idle" /\ ~IsSG /\ fs.nins + cnt <= cfg.maxIns /\ "maxExt" \in DOMAIN cfg /\ cnt <= cfg.maxExt
  /\ LET c0 == Cardinality(Ch)
         g0 == Reserve(fs, rd, hint)
         RECURSIVE Many(_, _, _)
         Many(f, r, i) == IF i = cnt THEN <<f, r>> ELSE LET x == InsertCore(f, r, c0 + i) IN Many(x[1], x[2], i + 1)
         g == Many(g0[1], g0[2], 0)
         f2 == [g[1] EXCEPT !.nins = @ + cnt]
         newc == c0..(c0 + cnt - 1)
     IN /\ fs' = f2 /\ rd' = g[2]
        /\ ans' = ans @@ [c \in newc |-> "new"] /\ alive' = alive @@ [c \in newc |-> TRUE]
        /\ pend' = pend @@ [c \in newc |-> 0] /\ nit' = nit @@ [c \in newc |-> 0] /\ polls' = polls @@ [c \in newc |-> 0]
        /\ handed' = handed @@ [c \in newc |-> <<>>] /\ firedL' = firedL @@ [c \in newc |-> FALSE]
        /\ Emit(<<[e |-> "extend", n |-> cnt, hint |-> hint]>> \o [i \in 1..cnt |-> [e |-> "insert", c |-> c0 + i - 1, key |-> -1]] \o <<EvView(f2)>>)
  /\ needPoll' = TRUE /\ quiesced' = FALSE
  /\ UNCHANGED <<cfg, pc, cur, gen, wokenL, started, final, nfire, nstale, nspur, ninfire, seen, conc>>

\* FromIterator (`collect()` into a group): the group the caller starts with is built from an iterator.
\*   FutureGroup::from_iter = new() + extend(iter)            (future_group.rs: capacity 0, reserve(hint), inserts)
\*   StreamGroup::from_iter = with_capacity(hint) + insert*   (stream_group.rs)
\* The caller learns no keys.  Only while nothing has happened to the group (the harness replaces the pristine group).
FromIterOp(cnt, hint) ==
  /\ pc = "idle" /\ ~started /\ Cardinality(Ch) = 0 /\ fs.nins = 0 /\ fs.nrem = 0 /\ fs.nres = 0
  /\ "maxFromIter" \in DOMAIN cfg /\ cnt <= cfg.maxFromIter /\ cnt <= cfg.maxIns
  /\ LET c0 == 0
         cap0 == IF IsSG THEN hint ELSE 0
         base == FsInit([n |-> cap0])
         r0 == RInit(cap0)
         g0 == IF IsSG THEN <<base, r0>> ELSE Reserve(base, r0, hint)
         RECURSIVE Many(_, _, _)
         Many(f, r, i) == IF i = cnt THEN <<f, r>> ELSE LET x == InsertCore(f, r, c0 + i) IN Many(x[1], x[2], i + 1)
         g == Many(g0[1], g0[2], 0)
         f2 == [g[1] EXCEPT !.nins = @ + cnt]
         newc == c0..(c0 + cnt - 1)
     IN /\ fs' = f2 /\ rd' = g[2]
        /\ ans' = ans @@ [c \in newc |-> "new"] /\ alive' = alive @@ [c \in newc |-> TRUE]
        /\ pend' = pend @@ [c \in newc |-> 0] /\ nit' = nit @@ [c \in newc |-> 0] /\ polls' = polls @@ [c \in newc |-> 0]
        /\ handed' = handed @@ [c \in newc |-> <<>>] /\ firedL' = firedL @@ [c \in newc |-> FALSE]
        /\ Emit(<<[e |-> "fromiter", n |-> cnt, hint |-> hint]>> \o [i \in 1..cnt |-> [e |-> "insert", c |-> c0 + i - 1, key |-> -1]] \o <<EvView(f2)>>)
  /\ needPoll' = TRUE /\ quiesced' = FALSE
  /\ UNCHANGED <<cfg, pc, cur, gen, wokenL, started, final, nfire, nstale, nspur, ninfire, seen, conc>>

Insert ==
  /\ pc = "idle" /\ fs.nins < cfg.maxIns
  /\ LET c == Cardinality(Ch)                      \* the new member's child id
         g == IF fs.cap <= GLen(fs) THEN Reserve(fs, rd, fs.cap * 2 + 1) ELSE <<fs, rd>>
         f1 == g[1]
         key == IF f1.free # <<>> THEN Head(f1.free) ELSE f1.slen       \* Slab::insert
         f2 == [f1 EXCEPT !.free = IF f1.free # <<>> THEN Tail(@) ELSE @,
                          !.slen = IF f1.free # <<>> THEN @ ELSE @ + 1,
                          !.keys = @ \cup {key}, !.st[key] = "P", !.owner[key] = c,
                          !.ever = IF \E i \in DOMAIN @ : @[i] = key THEN @ ELSE Append(@, key),
                          !.nins = @ + 1]
     IN /\ fs' = f2
        /\ rd' = RSet(g[2], key)                    \* readiness().set_ready(index)
        /\ ans' = ans @@ (c :> "new") /\ alive' = alive @@ (c :> TRUE)
        /\ pend' = pend @@ (c :> 0) /\ nit' = nit @@ (c :> 0) /\ polls' = polls @@ (c :> 0)
        /\ handed' = handed @@ (c :> <<>>) /\ firedL' = firedL @@ (c :> FALSE)
        /\ Emit(<<[e |-> "insert", c |-> c, key |-> key], EvView(f2)>>)
  /\ needPoll' = TRUE /\ quiesced' = FALSE
  /\ UNCHANGED <<cfg, pc, cur, gen, wokenL, started, final, nfire, nstale, nspur, ninfire, seen, conc>>

Remove(key) ==
  /\ pc = "idle" /\ fs.nrem < cfg.maxRem
  /\ \E i \in DOMAIN fs.ever : fs.ever[i] = key
  /\ LET present == key \in fs.keys
         c == fs.owner[key]
         f2 == IF present
                 THEN [fs EXCEPT !.keys = @ \ {key}, !.st[key] = "N", !.free = <<key>> \o @, !.nrem = @ + 1]
                 ELSE [fs EXCEPT !.nrem = @ + 1]
     IN /\ fs' = f2
        /\ alive' = IF present THEN [alive EXCEPT ![c] = FALSE] ELSE alive
        /\ Emit((IF present THEN <<EvCdrop(c)>> ELSE <<>>) \o <<[e |-> "remove", key |-> key, res |-> present], EvView(f2)>>)
  /\ needPoll' = TRUE /\ quiesced' = FALSE
  /\ UNCHANGED <<cfg, rd, pc, cur, ans, pend, nit, polls, handed, firedL, gen, wokenL, started, final,
                 nfire, nstale, nspur, ninfire, seen, conc>>

ReserveOp(a) ==
  /\ pc = "idle" /\ fs.nres < cfg.maxRes
  /\ LET g == Reserve(fs, rd, a)
         f2 == [g[1] EXCEPT !.nres = @ + 1] IN
       /\ fs' = f2 /\ rd' = g[2]
       /\ Emit(<<[e |-> "reserve", n |-> a], EvView(f2)>>)
  /\ needPoll' = TRUE /\ quiesced' = FALSE
  /\ UNCHANGED <<cfg, pc, cur, ans, alive, pend, nit, polls, handed, firedL, gen, wokenL, started, final,
                 nfire, nstale, nspur, ninfire, seen, conc>>

---------------------------------------------------------------------------
(* poll_next_inner: empty short-circuit; lock; set_waker; any_ready; set up the iteration *)
PollBegin ==
  /\ pc = "begin"
  /\ IF fs.keys = {}
       THEN /\ Ret("none") /\ Emit(<<EvRet("none", TRUE, -1, <<>>, -1)>>) /\ UNCHANGED <<fs, rd>>
       ELSE /\ rd' = RSetWaker(rd, gen)
            /\ IF ~RAny(rd)
                 THEN /\ Ret("pending") /\ Emit(<<EvRet("pending", TRUE, -1, <<>>, -1)>>) /\ UNCHANGED fs
                 ELSE /\ fs' = [fs EXCEPT !.scan = SeqOfSet(fs.keys), !.doneCount = 0, !.streamCount = GLen(fs)]
                      /\ pc' = "scan" /\ NoRet /\ Emit(<<>>)
  /\ UNCHANGED <<cfg, cur, ans, alive, pend, nit, polls, handed, firedL, gen, wokenL, started,
                 nfire, nstale, nspur, ninfire, seen, conc, quiesced>>

\* after the loop: flush the removal queue, decide the result (stream_group.rs; future_group.rs)
EndOfLoop ==
  LET f2 == [fs EXCEPT !.keys = @ \ Range(fs.queue), !.queue = <<>>, !.scan = <<>>] IN
  /\ fs' = f2
  /\ IF IsSG /\ fs.doneCount = fs.streamCount
       THEN Ret("none") /\ Emit(<<EvRet("none", TRUE, -1, <<>>, -1)>>)
       ELSE Ret("pending") /\ Emit(<<EvRet("pending", TRUE, -1, <<>>, -1)>>)

(* one iteration over the key set: the state test comes first, then clear_ready; unlock; hand out *)
ScanStep ==
  /\ pc = "scan"
  /\ IF fs.scan = <<>>
       THEN EndOfLoop /\ UNCHANGED <<rd, cur, handV>>
       ELSE LET k == Head(fs.scan) IN
            IF fs.st[k] # "P"
              THEN /\ fs' = [fs EXCEPT !.scan = Tail(@)]
                   /\ pc' = "scan" /\ NoRet /\ Emit(<<>>) /\ UNCHANGED <<rd, cur, handV>>
              ELSE /\ rd' = RClear(rd, k)
                   /\ IF ~RClearOld(rd, k)
                        THEN /\ fs' = [fs EXCEPT !.scan = Tail(@)]
                             /\ pc' = "scan" /\ NoRet /\ Emit(<<>>) /\ UNCHANGED <<cur, handV>>
                        ELSE /\ HandOut(fs.owner[k], WakerFor(k))
                             /\ Emit(<<CpollEv(fs.owner[k], WakerFor(k))>>) /\ NoRet /\ UNCHANGED fs
  /\ UNCHANGED <<cfg, ans, alive, pend, nit, gen, wokenL, started, nfire, nstale, nspur, ninfire, conc, quiesced>>

ChildAnswer ==
  /\ pc = "inchild"
  /\ \E a \in Answers(cur, IsSG) :
       LET c == cur
           k == Head(fs.scan)
           v == Val(c) IN
       /\ ChildSays(c, a)
       /\ CASE a.r = "pending" ->
                 /\ fs' = [fs EXCEPT !.scan = Tail(@)]
                 /\ pc' = "scan" /\ NoRet /\ UNCHANGED <<rd, alive>>
                 /\ Emit(<<CretEv(c, a)>>)
            [] a.r = "ready" ->
                 \* FutureGroup: the member is removed from the slab (dropped) and from the key set; break
                 /\ fs' = [fs EXCEPT !.st[k] = "N", !.free = <<k>> \o @, !.keys = @ \ {k}, !.scan = <<>>]
                 /\ alive' = [alive EXCEPT ![c] = FALSE]
                 /\ Ret("some") /\ UNCHANGED rd
                 /\ Emit(<<CretEv(c, a), EvCdrop(c), EvRet("some", TRUE, v, <<>>, IF Keyed THEN k ELSE -1)>>)
            [] a.r = "some" ->
                 \* StreamGroup: re-arm the slot, break, flush the removal queue
                 /\ rd' = RSet(rd, k)
                 /\ fs' = [fs EXCEPT !.keys = @ \ Range(fs.queue), !.queue = <<>>, !.scan = <<>>]
                 /\ Ret("some") /\ UNCHANGED alive
                 /\ Emit(<<CretEv(c, a), EvRet("some", TRUE, v, <<>>, IF Keyed THEN k ELSE -1)>>)
            [] a.r = "none" ->
                 \* StreamGroup: the member ended: drop it now, forget its key after the loop
                 /\ fs' = [fs EXCEPT !.st[k] = "N", !.free = <<k>> \o @, !.queue = Append(@, k),
                                     !.doneCount = @ + 1, !.scan = Tail(@)]
                 /\ alive' = [alive EXCEPT ![c] = FALSE]
                 /\ pc' = "scan" /\ NoRet /\ UNCHANGED rd
                 /\ Emit(<<CretEv(c, a), EvCdrop(c)>>)
  /\ UNCHANGED <<cfg, cur, polls, handed, firedL, gen, wokenL, started, nfire, nstale, nspur, ninfire, seen, conc, quiesced>>

\* the slab drops its occupied entries in slot order
DropEvents == MapSeq(SeqOfSet(Occupied(fs)), LAMBDA k : EvCdrop(fs.owner[k]))
Drop == DropWith(DropEvents)
ChildPanic == PanicWith(DropEvents)

Next == EnvNext \/ PollBegin \/ ScanStep \/ ChildAnswer \/ ChildPanic \/ Drop
        \/ Insert \/ (\E a \in 0..(IF TraceMode THEN 8 ELSE 2) : ReserveOp(a)) \/ (\E k \in Range(fs.ever) : Remove(k))
        \/ (\E n \in 1..3 : \E h \in Hints(n) : ExtendOp(n, h))
        \/ (\E n \in 1..4 : \E h \in Hints(n) : FromIterOp(n, h))
NextLive == Next \/ \E c \in Ch : OwedWake(c)
Spec == Init /\ [][Next]_vars
LiveSpec == Init /\ [][NextLive]_vars
            /\ WF_vars(Poll /\ (~started \/ wokenL \/ needPoll)) /\ WF_vars(PollBegin) /\ WF_vars(ScanStep) /\ WF_vars(ChildAnswer)
            /\ \A c \in 0..3 : WF_vars(OwedWake(c))
            /\ WF_vars(Insert)

---------------------------------------------------------------------------
TypeOK == /\ EnvTypeOK
          /\ fs.cap >= GLen(fs)
          /\ DOMAIN fs.st = 0..(fs.cap - 1)
          /\ \A k \in fs.keys : k < fs.cap
\* between polls: the key set is exactly the occupied slots, exactly those are Pending, every member is alive
SetView == pc = "idle" => /\ fs.queue = <<>>
                          /\ \A k \in 0..(fs.cap - 1) : (fs.st[k] = "P") <=> (k \in fs.keys)
                          /\ \A k \in fs.keys : alive[fs.owner[k]]
                          /\ \A k \in fs.keys : k \notin Range(fs.free)
                          /\ Cardinality(fs.keys) + Len(fs.free) = fs.slen
\* a member that has never been polled is marked ready (it will be started by the next poll)
FreshReady == (Sub /\ pc = "idle") => \A k \in fs.keys : ans[fs.owner[k]] \in {"new", "some"} => rd.bits[k]
ParentLatest == (pc = "idle" /\ started /\ fs.keys # {} /\ ~needPoll) => rd.parent = gen
\* liveness: once nothing is inserted any more and no member runs for ever, the group drains
Drains == (cfg.never = <<>> /\ ~cfg.drop /\ ~cfg.panic) => <>[](fs.nins = cfg.maxIns => fs.keys = {})
=============================================================================
