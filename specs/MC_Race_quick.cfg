SPECIFICATION Spec
CONSTANT Cfgs <- CfgsQuick
INVARIANT MonitorsQuiet TypeOK ErrSlots
CHECK_DEADLOCK FALSE
