SPECIFICATION Spec
CONSTANT Cfgs <- CfgsQuick
INVARIANT MonitorsQuiet Counts Chained ParentLatest TypeOK
CHECK_DEADLOCK FALSE
