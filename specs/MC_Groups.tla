------------------------------ MODULE MC_Groups ------------------------------
EXTENDS Groups, Json

B(rec, mp, mi, mf, ms, sp, mif, dr, pa, th, ins, rem, res) ==
  [rec |-> rec, maxPend |-> mp, maxItems |-> mi, maxFire |-> mf, maxStale |-> ms, maxSpur |-> sp, maxInFire |-> mif,
   drop |-> dr, panic |-> pa, threads |-> th, maxIns |-> ins, maxRem |-> rem, maxRes |-> res]

Mk(fam, cont, cap, feat, never, b) ==
  [fam |-> fam, cont |-> cont, n |-> cap, feat |-> feat, sub |-> feat = "std", rdy |-> TRUE, stream |-> TRUE,
   fallible |-> FALSE, group |-> TRUE, never |-> never, x |-> -1, conts |-> <<cont>>] @@ b

Feats == {"std", "alloc"}
Fams == {"future_group", "stream_group"}

CfgsQuick ==
  {[maxFromIter |-> 2] @@ Mk(fa, "keyed", 0, f, <<>>, B(FALSE, 1, 1, 1, 0, 0, 0, FALSE, FALSE, FALSE, 2, 0, 0)) : fa \in Fams, f \in Feats} \cup
  {[maxExt |-> 2] @@ Mk("future_group", "keyed", 0, f, <<>>, B(FALSE, 1, 1, 1, 0, 0, 0, FALSE, FALSE, FALSE, 3, 1, 0)) : f \in Feats} \cup
  {[reuse |-> TRUE] @@ Mk(fa, "keyed", 0, f, <<>>, B(FALSE, 1, 1, 1, 0, 1, 0, FALSE, FALSE, FALSE, 1, 0, 0)) : fa \in Fams, f \in Feats} \cup
  {Mk(fa, "keyed", 0, f, <<>>, B(FALSE, 1, 1, 1, 1, 0, 1, FALSE, FALSE, FALSE, 2, 1, 0)) : fa \in Fams, f \in Feats}
  \cup {Mk(fa, "plain", 1, "std", <<>>, B(FALSE, 1, 1, 1, 0, 0, 0, TRUE, TRUE, FALSE, 2, 0, 1)) : fa \in Fams}
  \cup {Mk(fa, "keyed", 0, f, <<0>>, B(FALSE, 1, 1, 1, 0, 0, 0, FALSE, FALSE, FALSE, 2, 0, 0)) : fa \in Fams, f \in Feats}

CfgsThorough ==
  CfgsQuick \cup
  {[maxFromIter |-> 3, maxExt |-> 2] @@ Mk(fa, "keyed", 0, f, <<>>, B(FALSE, 1, 1, 1, 1, 0, 1, FALSE, TRUE, FALSE, 4, 1, 1)) : fa \in Fams, f \in Feats} \cup
  {Mk(fa, "keyed", 0, f, <<>>, B(FALSE, 1, 1, 2, 1, 1, 1, TRUE, TRUE, FALSE, 2, 1, 0)) : fa \in Fams, f \in Feats}
  \cup {Mk(fa, "plain", 1, "std", <<>>, B(FALSE, 1, 1, 1, 1, 0, 0, FALSE, FALSE, FALSE, 3, 1, 1)) : fa \in Fams}
  \cup {Mk(fa, "keyed", 0, f, <<0>>, B(FALSE, 1, 1, 1, 0, 1, 1, FALSE, FALSE, FALSE, 2, 0, 0)) : fa \in Fams, f \in Feats}
  \cup {Mk(fa, "keyed", 0, "std", <<>>, B(FALSE, 1, 1, 1, 0, 0, 0, FALSE, FALSE, TRUE, 2, 0, 0)) : fa \in Fams}

CfgsGenQ ==
  {[maxFromIter |-> 2] @@ Mk(fa, "keyed", 0, f, <<>>, B(TRUE, 1, 1, 0, 0, 0, 0, FALSE, FALSE, FALSE, 2, 0, 0)) : fa \in Fams, f \in Feats} \cup
  {[maxExt |-> 2] @@ Mk("future_group", "keyed", 0, f, <<>>, B(TRUE, 1, 1, 0, 0, 0, 0, FALSE, FALSE, FALSE, 3, 1, 0)) : f \in Feats} \cup
  {Mk(fa, "keyed", 0, f, <<>>, B(TRUE, 1, 1, 1, 0, 0, 0, FALSE, FALSE, FALSE, 2, 1, 0)) : fa \in Fams, f \in Feats}
  \cup {Mk(fa, "plain", 0, f, <<>>, B(TRUE, 1, 1, 1, 0, 0, 0, TRUE, FALSE, FALSE, 1, 1, 0)) : fa \in Fams, f \in Feats}
  \cup {Mk(fa, "keyed", 1, f, <<>>, B(TRUE, 1, 1, 0, 0, 0, 0, FALSE, FALSE, FALSE, 2, 0, 1)) : fa \in Fams, f \in Feats}
  \cup {Mk(fa, "keyed", 0, f, <<0>>, B(TRUE, 1, 1, 0, 0, 0, 1, FALSE, FALSE, FALSE, 2, 0, 0)) : fa \in Fams, f \in Feats}

CfgsGen ==
  {Mk(fa, co, 0, f, <<>>, B(TRUE, 1, 1, 1, 1, 1, 1, TRUE, FALSE, FALSE, 2, 1, 0)) : fa \in Fams, f \in Feats, co \in {"keyed", "plain"}}
  \cup {Mk(fa, "keyed", 1, f, <<>>, B(TRUE, 1, 1, 1, 0, 0, 0, FALSE, TRUE, FALSE, 3, 1, 1)) : fa \in Fams, f \in Feats}
  \cup {Mk(fa, "keyed", 0, f, <<0>>, B(TRUE, 1, 1, 1, 0, 0, 1, FALSE, FALSE, FALSE, 2, 0, 0)) : fa \in Fams, f \in Feats}

CfgsLiveQ == {Mk(fa, "keyed", 0, f, <<>>, B(FALSE, 1, 1, 1, 0, 0, 0, FALSE, FALSE, FALSE, 2, 0, 0)) : fa \in Fams, f \in Feats}
CfgsLive == {Mk(fa, "keyed", 0, f, <<>>, B(FALSE, 1, 1, 1, 0, 1, 1, FALSE, FALSE, FALSE, 2, 0, 0)) : fa \in Fams, f \in Feats}

ExportOK == ExportEnd => PrintT("VEC " \o ToJson([cfg |-> cfg, hist |-> hist']))
=============================================================================
