------------------------------ MODULE NestGroup ------------------------------
(***************************************************************************)
(* A group whose members are combinators, implementation-shaped:           *)
(*     g = FutureGroup::new(); g.insert(vec![c0, c1].join());              *)
(*                             g.insert(vec![c2].join());                  *)
(* an outer FutureGroup (src/future/future_group.rs: slab, key set,        *)
(* PollState per slot, ReadinessVec grown by `reserve`) with two members,  *)
(* each an inner Vec join (src/future/join/vec.rs) with a readiness record *)
(* of its own.  What the other nest modules do not have:                   *)
(*  - three readiness instances: the group's (capacity 4 after the two     *)
(*    inserts: the spare slots 2 and 3 stay marked ready for ever, so      *)
(*    any_ready() never short-circuits) and one per member;                *)
(*  - two independent wake-up chains leaf -> member -> group slot ->       *)
(*    caller, and the group's scan over its key set in ascending order;    *)
(*  - a member that completes is removed (its slot's bit is left alone);   *)
(*    a stale waker of one of its leaves still reaches the group's slot    *)
(*    and may wake the caller spuriously (allowed), never a live member's  *)
(*    bit of another slot;                                                 *)
(*  - the group is a stream: after an item the consumer polls again; it    *)
(*    ends (None) when the last member has been yielded.                   *)
(* In the alloc configuration every level hands the caller's waker of the  *)
(* current poll straight through and polls everything unfinished.          *)
(*                                                                         *)
(* fs: keys, gst (group), ord (the group's readiness), scan                *)
(*     ist, ipend, iout, ird (members), ik, ileft, lvl                     *)
(***************************************************************************)
EXTENDS L2Env

GMem == {0, 1}
Leaves(k) == IF k = 0 THEN <<0, 1>> ELSE <<2>>
LeafSet(k) == Range(Leaves(k))
MemberOf(c) == IF c < 2 THEN 0 ELSE 1

FsInit(c) ==
  [keys |-> GMem, gst |-> [k \in GMem |-> "P"],
   ord |-> [bits |-> [i \in 0..3 |-> TRUE], count |-> 4, parent |-> -1], scan |-> <<>>,
   ist |-> [i \in 0..2 |-> "P"], ipend |-> [k \in GMem |-> Len(Leaves(k))], iout |-> [i \in 0..2 |-> -1],
   ird |-> [k \in GMem |-> [bits |-> [i \in LeafSet(k) |-> TRUE], count |-> Len(Leaves(k)), parent |-> <<"none", -1>>]],
   ik |-> -1, ileft |-> <<>>, lvl |-> "outer"]
InitFor(c) == InitEnv(c, 3, FsInit(c))
Init == \E c \in Cfgs : InitFor(c)

\* the waker the group hands to the member in slot k, and the one member k hands to its leaf c
OuterWaker(k) == IF Sub THEN <<"s", k>> ELSE <<"p", fs.ord.parent>>
InnerWaker(k, c) == IF Sub THEN <<"i", c>> ELSE fs.ird[k].parent

MemberOut(f, k) == MapSeq(Leaves(k), LAMBDA c : f.iout[c])

---------------------------------------------------------------------------
(* FutureGroup::poll_next_inner: empty => None; set_waker; any_ready early-out; the scan over the key set *)
PollBegin ==
  /\ pc = "begin"
  /\ IF fs.keys = {}
       THEN /\ Ret("none") /\ Emit(<<EvRet("none", TRUE, -1, <<>>, -1)>>) /\ UNCHANGED fs
       ELSE LET ord1 == RSetWaker(fs.ord, gen) IN
            IF ~RAny(ord1)
              THEN /\ fs' = [fs EXCEPT !.ord = ord1]
                   /\ Ret("pending") /\ Emit(<<EvRet("pending", TRUE, -1, <<>>, -1)>>)
              ELSE /\ fs' = [fs EXCEPT !.ord = ord1, !.scan = SeqOfSet(fs.keys), !.lvl = "outer"]
                   /\ pc' = "scan" /\ NoRet /\ Emit(<<>>)
  /\ UNCHANGED <<cfg, rd, cur, ans, alive, pend, nit, polls, handed, firedL, gen, wokenL, started,
                 nfire, nstale, nspur, ninfire, seen, conc, quiesced>>

\* one iteration of the group's loop: the state test first, then clear_ready; polling member k = the start of Vec join's poll
OuterStep ==
  IF fs.scan = <<>>
    THEN /\ Ret("pending") /\ Emit(<<EvRet("pending", TRUE, -1, <<>>, -1)>>)
         /\ UNCHANGED <<fs, cur, handV>>
    ELSE LET k == Head(fs.scan) IN
         IF fs.gst[k] = "P" /\ RClearOld(fs.ord, k)
           THEN LET ord1 == RClear(fs.ord, k)
                    ird1 == [fs.ird[k] EXCEPT !.parent = OuterWaker(k)] IN
                IF fs.ipend[k] # 0 /\ ~RAny(ird1)
                  THEN \* the member has nothing ready: Pending; the group's loop goes on
                       /\ fs' = [fs EXCEPT !.ord = ord1, !.ird[k] = ird1, !.scan = Tail(@)]
                       /\ pc' = "scan" /\ NoRet /\ Emit(<<>>) /\ UNCHANGED <<cur, handV>>
                  ELSE /\ fs' = [fs EXCEPT !.ord = ord1, !.ird[k] = ird1, !.lvl = "inner", !.ik = k, !.ileft = Leaves(k)]
                       /\ pc' = "scan" /\ NoRet /\ Emit(<<>>) /\ UNCHANGED <<cur, handV>>
           ELSE /\ fs' = [fs EXCEPT !.scan = Tail(@)]
                /\ pc' = "scan" /\ NoRet /\ Emit(<<>>) /\ UNCHANGED <<cur, handV>>

\* the loop of the member being polled (join/vec.rs), and what the group does with its answer
InnerStep ==
  LET k == fs.ik IN
  IF fs.ileft = <<>>
    THEN IF fs.ipend[k] = 0
           THEN \* the member resolves: the group yields its output, forgets the member (the slot's bit is left alone)
                /\ fs' = [fs EXCEPT !.ist = [c \in 0..2 |-> IF c \in LeafSet(k) THEN "N" ELSE @[c]],
                                    !.gst[k] = "N", !.keys = @ \ {k}, !.lvl = "outer", !.scan = <<>>, !.ik = -1]
                /\ Ret("some") /\ Emit(<<EvRet("some", TRUE, -1, MemberOut(fs, k), -1)>>)
                /\ UNCHANGED <<cur, handV>>
           ELSE /\ fs' = [fs EXCEPT !.lvl = "outer", !.scan = Tail(@), !.ik = -1]
                /\ pc' = "scan" /\ NoRet /\ Emit(<<>>) /\ UNCHANGED <<cur, handV>>
    ELSE LET c == Head(fs.ileft) IN
         IF fs.ist[c] = "P" /\ RClearOld(fs.ird[k], c)
           THEN /\ fs' = [fs EXCEPT !.ird[k] = RClear(@, c)]
                /\ HandOut(c, InnerWaker(k, c))
                /\ Emit(<<CpollEv(c, InnerWaker(k, c))>>) /\ NoRet
           ELSE /\ fs' = [fs EXCEPT !.ileft = Tail(@)]
                /\ pc' = "scan" /\ NoRet /\ Emit(<<>>) /\ UNCHANGED <<cur, handV>>

ScanStep ==
  /\ pc = "scan"
  /\ IF fs.lvl = "outer" THEN OuterStep ELSE InnerStep
  /\ UNCHANGED <<cfg, rd, ans, alive, pend, nit, gen, wokenL, started, nfire, nstale, nspur, ninfire, conc, quiesced>>

ChildAnswer ==
  /\ pc = "inchild"
  /\ \E a \in Answers(cur, FALSE) :
       LET c == cur
           k == MemberOf(cur)
           v == Val(c) IN
       /\ ChildSays(c, a)
       /\ IF a.r = "pending"
            THEN /\ fs' = [fs EXCEPT !.ileft = Tail(@)]
                 /\ pc' = "scan" /\ NoRet /\ UNCHANGED alive /\ Emit(<<CretEv(c, a)>>)
            ELSE /\ fs' = [fs EXCEPT !.iout[c] = v, !.ist[c] = "R", !.ipend[k] = @ - 1, !.ileft = Tail(@)]
                 /\ alive' = [alive EXCEPT ![c] = FALSE]
                 /\ pc' = "scan" /\ NoRet
                 /\ Emit(<<CretEv(c, a), EvCdrop(c)>>)
  /\ UNCHANGED <<cfg, rd, cur, polls, handed, firedL, gen, wokenL, started, nfire, nstale, nspur, ninfire, seen, conc, quiesced>>

---------------------------------------------------------------------------
(* wake-ups: leaf -> its member's readiness -> the group's slot -> the caller's latest waker *)
NWakeEffect(c, k, inp) ==
  LET w == handed[c][k + 1]
      wid == WidIn(seen, w)
      mb == MemberOf(c) IN
  /\ firedL' = [firedL EXCEPT ![c] = @ \/ (k = polls[c] - 1)]
  /\ CASE w[1] = "i" ->
            IF fs.ird[mb].bits[c]
              THEN /\ UNCHANGED <<fs, wokenL>>
                   /\ Emit(<<EvFire(c, k, wid, inp), EvFired(c, k)>>)
              ELSE \* the member notifies the waker it stored: the group's sub-waker of its slot
                   LET slot == fs.ird[mb].parent[2]
                       old == fs.ord.bits[slot] IN
                   /\ fs' = [fs EXCEPT !.ird[mb] = RSet(@, c), !.ord = RSet(@, slot)]
                   /\ wokenL' = (wokenL \/ (~old /\ fs.ord.parent = gen))
                   /\ Emit(<<EvFire(c, k, wid, inp)>> \o (IF ~old THEN <<EvPwake(fs.ord.parent)>> ELSE <<>>) \o <<EvFired(c, k)>>)
       [] w[1] = "p" ->
            /\ UNCHANGED fs
            /\ wokenL' = (wokenL \/ w[2] = gen)
            /\ Emit(<<EvFire(c, k, wid, inp), EvPwake(w[2]), EvFired(c, k)>>)

NWake(c, k) ==
  /\ pc \in {"idle", "dropped", "begin", "repolled"}
  /\ Fireable(c, k)
  /\ nfire < cfg.maxFire /\ nfire' = nfire + 1
  /\ StaleBudget(c, k)
  /\ NWakeEffect(c, k, FALSE)
  /\ conc' = (conc \/ pc = "begin")
  /\ quiesced' = FALSE
  /\ UNCHANGED <<cfg, rd, pc, cur, ans, alive, pend, nit, polls, handed, gen, started, final, needPoll, nspur, ninfire, seen>>

NInFire(c, k) ==
  /\ pc = "inchild"
  /\ Fireable(c, k)
  /\ ninfire < cfg.maxInFire /\ ninfire' = ninfire + 1
  /\ StaleBudget(c, k)
  /\ NWakeEffect(c, k, TRUE)
  /\ UNCHANGED <<cfg, rd, pc, cur, ans, alive, pend, nit, polls, handed, gen, started, final, needPoll, nfire, nspur, seen, conc, quiesced>>

NThreadWake(c, k) ==
  /\ pc = "scan" /\ cfg.threads
  /\ Fireable(c, k) /\ k = polls[c] - 1
  /\ nfire < cfg.maxFire /\ nfire' = nfire + 1
  /\ NWakeEffect(c, k, TRUE)
  /\ conc' = TRUE
  /\ UNCHANGED <<cfg, rd, pc, cur, ans, alive, pend, nit, polls, handed, gen, started, final, needPoll, nstale, nspur, ninfire, seen, quiesced>>

NWakes == \E c \in Ch : \E k \in 0..(polls[c] - 1) : NWake(c, k) \/ NInFire(c, k) \/ NThreadWake(c, k)

NOwedWake(c) ==
  /\ pc = "idle" /\ c \in Owed
  /\ NWakeEffect(c, polls[c] - 1, FALSE)
  /\ quiesced' = FALSE
  /\ UNCHANGED <<cfg, rd, pc, cur, ans, alive, pend, nit, polls, handed, gen, started, final, needPoll,
                 nfire, nstale, nspur, ninfire, seen, conc>>

---------------------------------------------------------------------------
(* Drop of the group: the slab's remaining members in slot order; each a Vec join: initialised outputs, then pending leaves *)
MemberDropEvents(k) ==
  MapSeq(SelectSeq(Leaves(k), LAMBDA c : fs.ist[c] = "R"), LAMBDA c : EvVdrop(fs.iout[c]))
  \o MapSeq(SelectSeq(Leaves(k), LAMBDA c : fs.ist[c] = "P"), LAMBDA c : EvCdrop(c))
DropEvents == (IF 0 \in fs.keys THEN MemberDropEvents(0) ELSE <<>>) \o (IF 1 \in fs.keys THEN MemberDropEvents(1) ELSE <<>>)
Drop == DropWith(DropEvents)
ChildPanic == PanicWith(DropEvents)

Next == Poll \/ PollReuse \/ NWakes \/ Quiesce \/ Finish \/ PollBegin \/ ScanStep \/ ChildAnswer \/ ChildPanic \/ Drop
NextLive == Next \/ \E c \in Ch : NOwedWake(c)
Spec == Init /\ [][Next]_vars
LiveSpec == Init /\ [][NextLive]_vars
            /\ WF_vars(Poll /\ (~started \/ wokenL \/ needPoll)) /\ WF_vars(PollBegin) /\ WF_vars(ScanStep) /\ WF_vars(ChildAnswer)
            /\ \A c \in 0..2 : WF_vars(NOwedWake(c))

---------------------------------------------------------------------------
TypeOK == /\ EnvTypeOK
          /\ \A k \in GMem : (k \in fs.keys) <=> (fs.gst[k] = "P")
          /\ \A k \in fs.keys : fs.ipend[k] = Cardinality({c \in LeafSet(k) : fs.ist[c] = "P"})
Counts == Sub => /\ fs.ord.count = Cardinality({i \in DOMAIN fs.ord.bits : fs.ord.bits[i]})
                 /\ \A k \in GMem : fs.ird[k].count = Cardinality({c \in LeafSet(k) : fs.ird[k].bits[c]})
\* the chains of registrations: while parked, a live member with a leaf marked ready has its own slot marked in the group
Chained == (Sub /\ pc = "idle" /\ started /\ ~needPoll)
             => \A k \in fs.keys : (\E c \in LeafSet(k) : fs.ird[k].bits[c] /\ fs.ist[c] = "P") => fs.ord.bits[k]
\* the group's stored waker is the caller's latest one whenever it is parked with members left
ParentLatest == (pc = "idle" /\ started /\ ~final /\ ~needPoll /\ fs.keys # {}) => fs.ord.parent = gen
Ends == (cfg.never = <<>> /\ ~cfg.drop /\ ~cfg.panic) => <>(final)
=============================================================================
