SPECIFICATION Spec
CONSTANT Cfgs <- CfgsQuick
INVARIANT MonitorsQuiet InnerCount InnerParentLatest Decided InnerOwned TypeOK
CHECK_DEADLOCK FALSE
