----------------------------- MODULE WaitUntil -----------------------------
(***************************************************************************)
(* Implementation-shaped (L2) specification of                             *)
(*   future.wait_until(deadline)   src/future/wait_until.rs  (cfg.fam =    *)
(*                                 "wait_until")                           *)
(*   stream.wait_until(deadline)   src/stream/wait_until.rs  (cfg.fam =    *)
(*                                 "wait_until_stream")                    *)
(* Child 0 is the deadline (a future with unit output), child 1 the inner  *)
(* future / stream.  Both are polled with the caller's own waker.          *)
(* fs.state: "started" | "inner" | "completed"                             *)
(*   (future: Started / PollFuture / Completed; stream: Timer / Streaming) *)
(***************************************************************************)
EXTENDS L2Env

IsS == cfg.fam = "wait_until_stream"
FsInit(c) == [state |-> "started"]
InitFor(c) == InitEnv(c, 2, FsInit(c))
Init == \E c \in Cfgs : InitFor(c)

PollBegin ==
  /\ pc = "begin" /\ fs.state # "completed"        \* (future: panics when polled after completing)
  /\ pc' = "scan" /\ NoRet /\ Emit(<<>>)
  /\ UNCHANGED <<cfg, fs, rd, cur, ans, alive, pend, nit, polls, handed, firedL, gen, wokenL, started,
                 nfire, nstale, nspur, ninfire, seen, conc, quiesced>>

(* the state decides who is polled (future/wait_until.rs:47-57, stream/wait_until.rs:52-60) *)
ScanStep ==
  /\ pc = "scan"
  /\ LET c == IF fs.state = "started" THEN 0 ELSE 1 IN
       /\ HandOut(c, <<"p", gen>>)
       /\ Emit(<<CpollEv(c, <<"p", gen>>)>>) /\ NoRet /\ UNCHANGED fs
  /\ UNCHANGED <<cfg, rd, ans, alive, pend, nit, gen, wokenL, started, nfire, nstale, nspur, ninfire, conc, quiesced>>

ChildAnswer ==
  /\ pc = "inchild"
  /\ \E a \in Answers(cur, IsS /\ cur = 1) :
       LET c == cur IN
       /\ ChildSays(c, a)
       /\ IF c = 0
            THEN \* the deadline: its output is the unit value
                 IF a.r = "pending"
                   THEN /\ Ret("pending") /\ UNCHANGED fs
                        /\ Emit(<<CretEv(c, a), EvRet("pending", TRUE, -1, <<>>, -1)>>)
                   ELSE \* resolved: go on with the inner one in the same poll
                        /\ fs' = [fs EXCEPT !.state = "inner"]
                        /\ pc' = "scan" /\ NoRet
                        /\ Emit(<<EvCret(c, K(c), "ready", TRUE, -1)>>)
            ELSE \* the inner future / stream: its answer is the answer
                 /\ fs' = [fs EXCEPT !.state = IF a.r = "ready" THEN "completed" ELSE @]
                 /\ Ret(a.r)
                 /\ Emit(<<CretEv(c, a), EvRet(a.r, TRUE, IF a.r \in {"ready", "some"} THEN Val(c) ELSE -1, <<>>, -1)>>)
  /\ UNCHANGED <<cfg, rd, cur, alive, polls, handed, firedL, gen, wokenL, started, nfire, nstale, nspur, ninfire, seen, conc, quiesced>>

\* fields in declaration order: the inner future / stream, then the deadline
DropEvents == <<EvCdrop(1), EvCdrop(0)>>
Drop == DropWith(DropEvents)
ChildPanic == PanicWith(DropEvents)

Repoll == cfg.fam = "wait_until" /\ RepollPanics(DropEvents)        \* assert!(!done) / Completed => panic
Next == EnvNext \/ PollBegin \/ ScanStep \/ ChildAnswer \/ ChildPanic \/ Drop \/ Repoll
NextLive == Next \/ \E c \in Ch : OwedWake(c)
Spec == Init /\ [][Next]_vars
LiveSpec == Init /\ [][NextLive]_vars
            /\ WF_vars(Poll /\ (~started \/ wokenL \/ needPoll)) /\ WF_vars(PollBegin) /\ WF_vars(ScanStep) /\ WF_vars(ChildAnswer)
            /\ \A c \in 0..1 : WF_vars(OwedWake(c))

---------------------------------------------------------------------------
TypeOK == EnvTypeOK /\ fs.state \in {"started", "inner", "completed"}
\* the inner one is untouched until the deadline resolved; the deadline is left alone afterwards
Untouched == (fs.state = "started" => polls[1] = 0) /\ (ans[0] = "done" <=> fs.state # "started")
Ends == (cfg.never = <<>> /\ ~cfg.drop /\ ~cfg.panic) => <>(final)
=============================================================================
