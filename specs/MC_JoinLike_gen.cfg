SPECIFICATION Spec
CONSTANT Cfgs <- CfgsGen
INVARIANT MonitorsQuiet ReadinessCount
VIEW view
ACTION_CONSTRAINT ExportOK
CHECK_DEADLOCK FALSE
