SPECIFICATION LiveSpec
CONSTANT Cfgs <- CfgsLive
PROPERTY Drains
CHECK_DEADLOCK FALSE
