SPECIFICATION Spec
CONSTANT Cfgs <- CfgsQuick
INVARIANT MonitorsQuiet ReadinessCount InnerCount Chained TypeOK
CHECK_DEADLOCK FALSE
