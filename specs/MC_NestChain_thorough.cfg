SPECIFICATION Spec
CONSTANT Cfgs <- CfgsThorough
INVARIANT MonitorsQuiet InnerCount Sequential InnerParentLatest Rearmed TypeOK
CHECK_DEADLOCK FALSE
