SPECIFICATION Spec
CONSTANT Cfgs <- CfgsThorough
INVARIANT MonitorsQuiet ReadinessCount InnerCount Chained Rearmed TypeOK
CHECK_DEADLOCK FALSE
