#!/usr/bin/env python3
"""impl -> spec conformance: is a trace recorded from the real code a behaviour of the L2 specification?

Every run of a recorded ndjson trace (harness output; runs start with a `new` event) is turned into one
record  {id, cfg, ev}:  cfg is the L2 configuration read off the `new` event (family, container shape,
number of children, feature build, never-completing children; all environment budgets unbounded; trace
mode), ev the observable events of the run.  Trace_<Module>.tla makes each run an initial state and lets TLC
search for a behaviour of the L2 spec that emits exactly those events.  Runs that use features the L2 specs
do not model (extend, a poll after the final result, nests, concurrent streams before CoStream) are skipped
and counted.

  tracel2.py <trace.ndjson> [--max N] [--workers W]      (development CLI)
"""
import json
import os
import subprocess
import sys
import time

ROOT = os.path.dirname(os.path.dirname(os.path.abspath(__file__)))
SPECS = os.path.join(ROOT, "specs")
TLA_CP = "/opt/veriftools/tla/tla2tools.jar:/opt/veriftools/tla/CommunityModules-deps.jar"

BIG = 1000000
FAM_MODULE = {"join": "JoinLike", "try_join": "JoinLike", "race": "Race", "race_ok": "Race", "merge": "Merge", "zip": "Zip",
              "chain": "Chain", "wait_until": "WaitUntil", "wait_until_stream": "WaitUntil",
              "future_group": "Groups", "stream_group": "Groups", "co": "CoStream", "nest_join_join": "Nest", "nest_merge_merge": "NestStream", "nest_race_join": "NestRace", "nest_chain_merge": "NestChain", "nest_group_join": "NestGroup", "nest_merge_groups": "NestMG"}
SKIP_EV = {"new", "built", "end"}


def cfg_for(new):
    """L2 configuration record for a recorded run, or (None, reason)."""
    fam, cont, n, feat = new["fam"], new["cont"], new["n"], new["feat"]
    mod = FAM_MODULE.get(fam)
    if mod is None or not os.path.exists(os.path.join(SPECS, "Trace_%s.tla" % mod)):
        return None, None, "no L2 module for family %s" % fam
    std = feat == "std"
    bud = dict(rec=True, maxPend=BIG, maxItems=BIG, maxFire=BIG, maxStale=BIG, maxSpur=BIG, maxInFire=BIG,
               drop=True, panic=True, threads=False, trace=True, reuse=True)
    if mod == "JoinLike":
        variant = "tup" if cont in ("tup", "ext") else "arr"
        c = dict(kind=fam, variant=variant, n=n, mode="std" if std else "pollall", never=new.get("never", []))
        c.update(bud)
        return mod, c, None
    if fam == "co":
        stack = []
        for a in json.loads(new.get("stack", "[]")):
            if isinstance(a, str):
                stack.append(dict(k=a, n=0))
            else:
                stack.append(dict(k=a[0], n=1000000 if a[1] in ("max", "big") else a[1]))
        c = dict(fam="co", cont=cont, n=n, feat="std" if std else "alloc", sub=True, rdy=True, stream=True, fallible=False,
                 group=False, never=new.get("never", []), x=-1, maxX=BIG, conts=[], stack=stack, term=new["term"],
                 limit=new.get("limit", 0), take=new.get("take", -1), nmaps=new.get("nmaps", 0))
        c.update(bud)
        return mod, c, None
    rdy = fam in ("merge", "zip", "future_group", "stream_group", "nest_join_join", "nest_merge_merge", "nest_race_join", "nest_chain_merge", "nest_group_join", "nest_merge_groups")
    if fam == "race_ok":
        shape = "tup" if cont in ("tup", "ext") else cont
    elif fam in ("future_group", "stream_group"):
        shape = cont
    else:
        shape = "arr"
    if fam == "race_ok" and shape == "tup" and n == 0:
        return None, None, "race_ok over the empty tuple does not exist"
    c = dict(fam=fam, cont=shape, n=n, feat="std" if std else "alloc", sub=bool(std and rdy), rdy=rdy,
             stream=bool(new.get("stream")), fallible=fam in ("race_ok",), group=fam in ("future_group", "stream_group"),
             never=new.get("never", []), x=-1, maxX=BIG, conts=[], maxIns=BIG, maxRem=BIG, maxRes=BIG, maxExt=3, maxFromIter=4)
    if fam in ("race", "zip") and n == 0:
        return None, None, "%s over zero inputs is outside the modelled domain" % fam
    c.update(bud)
    return mod, c, None


def _with_src_hint(cfg, ev):
    """Concurrent streams: the size hint of the source stream is an input of the run (CoStream.tla: cfg.srcHint); it is
    read off the run's `coview` event."""
    if cfg.get("fam") == "co":
        for e in ev:
            if e["e"] == "coview":
                return dict(cfg, srcHint=[e["slo"], e["shi"]])
    return cfg


def split_runs(path):
    cur = None
    with open(path) as f:
        for line in f:
            line = line.strip()
            if not line:
                continue
            e = json.loads(line)
            if e["e"] == "new":
                if cur is not None:
                    yield cur
                cur = [e]
            elif cur is not None:
                cur.append(e)
    if cur is not None:
        yield cur


def convert(paths, per_module_max=None, stride=1, per_file_max=None):
    """-> {module: [run records]}, skipped {reason: count}"""
    runs, skipped = {}, {}
    k = 0
    for path in paths:
        infile = 0
        fstride = 1
        if per_file_max is not None:
            # spread the sample over the whole file (the runs of one file are grouped by family)
            with open(path) as f:
                total = sum(1 for line in f if line.startswith('{"e":"new"'))
            fstride = max(1, total // max(1, per_file_max))
        j = 0
        for evs in split_runs(path):
            k += 1
            j += 1
            if stride > 1 and k % stride:
                continue
            if fstride > 1 and j % fstride:
                skipped["over the sample size"] = skipped.get("over the sample size", 0) + 1
                continue
            if per_file_max is not None and infile >= per_file_max + 2:
                skipped["over the sample size"] = skipped.get("over the sample size", 0) + 1
                continue
            infile += 1
            new = evs[0]
            mod, cfg, why = cfg_for(new)
            kinds = {e["e"] for e in evs}
            if why is None:
                if "tstart" in kinds:
                    why = "threaded run (order of concurrent wakes is not logged)"
                elif "repoll" in kinds and (mod not in ("JoinLike", "Race", "Merge", "Zip", "Chain", "WaitUntil", "NestStream", "NestChain", "NestMG") or new["n"] == 0):
                    why = "poll after the final result (unspecified, not modelled)"
                elif "skip" in kinds:
                    why = "vector skipped by the harness"
                elif any(e["e"] == "panic" and e.get("at") not in ("poll", "repoll") for e in evs):
                    why = "panic outside poll"
                elif evs[-1]["e"] != "end":
                    why = "truncated run (crash)"
                elif new["fam"] == "co" and sum(1 for e in evs if e["e"] == "wnew") > 32:
                    why = "more than 32 closure futures (futures-buffered grows its slot map: third-party internals beyond the abstraction of CoStream.tla)"
            if why is not None:
                skipped[why] = skipped.get(why, 0) + 1
                continue
            lst = runs.setdefault(mod, [])
            if per_module_max is not None and len(lst) >= per_module_max:
                skipped["over the sample size"] = skipped.get("over the sample size", 0) + 1
                continue
            ev = [e for e in evs if e["e"] not in SKIP_EV]
            if new["fam"] == "co":
                # waker identities of third-party (futures-buffered) wakers are not modelled: canonicalise
                ev = [dict(e, wid=-7) if "wid" in e else e for e in ev]
            lst.append(dict(id=new.get("id", "?"), cfg=_with_src_hint(cfg, ev), ev=ev))
    return runs, skipped


def convert_balanced(paths, per_module_max):
    """Like convert, but the sample is spread evenly over the runs of every L2 module (families with few runs are
    not crowded out by the frequent ones): pass 1 reads the `new` lines only, pass 2 converts the chosen runs."""
    index = {}       # module -> [(path, ordinal of the run in the file)]
    for path in paths:
        k = -1
        with open(path) as f:
            for line in f:
                if line.startswith('{"e":"new"'):
                    k += 1
                    try:
                        new = json.loads(line)
                    except Exception:
                        continue
                    mod = FAM_MODULE.get(new.get("fam"))
                    if mod:
                        index.setdefault(mod, []).append((path, k))
    chosen = {}
    for mod, lst in index.items():
        # oversample a little: some runs are skipped later (threads, extend on StreamGroup, ...)
        want = min(len(lst), int(per_module_max * 1.6) + 8)
        step = len(lst) / float(want)
        for i in range(want):
            pth, k = lst[int(i * step)]
            chosen.setdefault(pth, set()).add(k)
    runs, skipped = {}, {}
    for path in paths:
        sel = chosen.get(path, set())
        if not sel:
            continue
        for k, evs in enumerate(split_runs(path)):
            if k not in sel:
                continue
            r2, s2 = _convert_one(evs)
            if r2 is None:
                skipped[s2] = skipped.get(s2, 0) + 1
                continue
            mod, rec = r2
            lst = runs.setdefault(mod, [])
            if len(lst) < per_module_max:
                lst.append(rec)
    return runs, skipped


def _convert_one(evs):
    new = evs[0]
    mod, cfg, why = cfg_for(new)
    kinds = {e["e"] for e in evs}
    if why is None:
        if "tstart" in kinds:
            why = "threaded run (order of concurrent wakes is not logged)"
        elif "repoll" in kinds and (mod not in ("JoinLike", "Race", "Merge", "Zip", "Chain", "WaitUntil", "NestStream", "NestChain", "NestMG") or new["n"] == 0):
            why = "poll after the final result (unspecified, not modelled)"
        elif "skip" in kinds:
            why = "vector skipped by the harness"
        elif any(e["e"] == "panic" and e.get("at") not in ("poll", "repoll") for e in evs):
            why = "panic outside poll"
        elif evs[-1]["e"] != "end":
            why = "truncated run (crash)"
        elif new["fam"] == "co" and sum(1 for e in evs if e["e"] == "wnew") > 32:
            why = "more than 32 closure futures (futures-buffered grows its slot map: third-party internals beyond the abstraction of CoStream.tla)"
    if why is not None:
        return None, why
    ev = [e for e in evs if e["e"] not in SKIP_EV]
    if new["fam"] == "co":
        ev = [dict(e, wid=-7) if "wid" in e else e for e in ev]
    return (mod, dict(id=new.get("id", "?"), cfg=_with_src_hint(cfg, ev), ev=ev)), None


def tlc_trace(mod, runfile, workdir, cfgname=None, workers=4, timeout=3600):
    env = dict(os.environ, TRACE=runfile, JAVA_TOOL_OPTIONS="-Xss1g")
    meta = os.path.join(workdir, "tl2_%s_%d" % (mod, os.getpid()))
    cmd = ["java", "-XX:+UseParallelGC", "-Xmx6g", "-cp", TLA_CP, "tlc2.TLC", "-workers", str(workers), "-metadir", meta,
           "-cleanup", "-noGenerateSpecTE", "-config", os.path.join(SPECS, cfgname or ("Trace_%s.cfg" % mod)),
           os.path.join(SPECS, "Trace_%s.tla" % mod)]
    try:
        p = subprocess.run(cmd, cwd=SPECS, env=env, capture_output=True, text=True, timeout=timeout)
    finally:
        subprocess.run(["rm", "-rf", meta])
    return p.stdout + p.stderr


def validate(runs_by_mod, workdir, tag, workers=4, diag_max=3):
    """-> {module: {runs, accepted, rejected, first_rejections: [...]}}"""
    os.makedirs(workdir, exist_ok=True)
    out = {}
    for mod, runs in runs_by_mod.items():
        if not runs:
            continue
        t0 = time.time()
        rf = os.path.join(workdir, "l2runs_%s_%s.ndjson" % (tag, mod))
        with open(rf, "w") as f:
            for r in runs:
                f.write(json.dumps(r) + "\n")
        o = tlc_trace(mod, rf, workdir, workers=workers)
        tlc_error = None
        if "Model checking completed" not in o:
            # TLC could not even evaluate the L2 actions on some recorded run (the code does something the
            # specification has no value for): that is a disagreement between code and spec, i.e. drift -
            # never a verdict.  Runs not accepted before the error count as rejected.
            if "Parsing or semantic analysis failed" in o or "Error: Could not" in o:
                raise RuntimeError("Trace_%s: TLC failed:\n%s" % (mod, o[-3000:]))
            m = [l for l in o.splitlines() if l.startswith("Error:")]
            tlc_error = (m[0] if m else "TLC stopped")[:300]
        acc = set()
        for line in o.splitlines():
            if line.startswith('"ACC '):
                acc.add(int(line.strip('"').split()[1]))
        rej = [i for i in range(1, len(runs) + 1) if i not in acc]
        res = dict(runs=len(runs), accepted=len(acc), rejected=len(rej), secs=round(time.time() - t0, 1), first_rejections=[])
        if tlc_error:
            res["tlc_evaluation_error"] = tlc_error
            res["first_rejections"].append(dict(id=runs[rej[0] - 1]["id"] if rej else "?", matched=0, of=0, next_event=None,
                                                prev_events=[], note="TLC evaluation error: " + tlc_error))
            out[mod] = res
            continue
        # diagnose the first few rejected runs: longest matched prefix, first unmatched event
        for i in rej[:diag_max]:
            r = runs[i - 1]
            df = os.path.join(workdir, "l2diag_%s_%s.ndjson" % (tag, mod))
            with open(df, "w") as f:
                f.write(json.dumps(r) + "\n")
            o2 = tlc_trace(mod, df, workdir, cfgname="Trace_%s_diag.cfg" % mod, workers=1)
            best = 0
            for line in o2.splitlines():
                if line.startswith('"LEN '):
                    best = max(best, int(line.strip('"').split()[2]))
            res["first_rejections"].append(dict(id=r["id"], matched=best, of=len(r["ev"]),
                                                next_event=r["ev"][best] if best < len(r["ev"]) else None,
                                                prev_events=r["ev"][max(0, best - 4):best]))
        out[mod] = res
    return out


def main():
    a = sys.argv[1:]
    mx = None
    workers = 8
    paths = []
    i = 0
    while i < len(a):
        if a[i] == "--max":
            mx = int(a[i + 1]); i += 2
        elif a[i] == "--workers":
            workers = int(a[i + 1]); i += 2
        else:
            paths.append(a[i]); i += 1
    runs, skipped = convert(paths, mx)
    res = validate(runs, os.path.join(ROOT, "work"), "cli", workers=workers)
    print(json.dumps(dict(result=res, skipped=skipped), indent=1))


if __name__ == "__main__":
    main()
