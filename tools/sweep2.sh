#!/bin/bash
# development-time: one thorough run of every check (single-family checks first)
cd "$(dirname "$0")/.."
python3 tools/check.py --setup > sweep_setup.log 2>&1
for p in C04 C05 C06 C07 C08 C09 C10 C11 C12 C13 C14 C15 C17 C19 C16 C20 C02 C03; do
  /usr/bin/time -f "%es" python3 tools/check.py $p --tier thorough > sweep_${p}_thorough.log 2>&1
  echo "thorough $p exit=$? $(grep -cE '^VIOLATION' sweep_${p}_thorough.log) violations; $(grep -E '^(MODEL-DRIFT|TOOL-ERROR)' sweep_${p}_thorough.log | head -2 | cut -c1-200) $(tail -2 sweep_${p}_thorough.log | tr '\n' ' ' | cut -c1-300)"
done
