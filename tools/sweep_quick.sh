#!/bin/bash
# development-time: false-alarm sweep of every quick check over seeds (default 2 3 4 5)
cd "$(dirname "$0")/.."
python3 tools/check.py --setup > sweep_setup.log 2>&1
PROPS="C01 C02 C03 C04 C05 C06 C07 C08 C09 C10 C11 C12 C13 C14 C15 C16 C17 C19 C20"
for s in ${@:-2 3 4 5}; do
  for p in $PROPS; do
    VERIF_SEED=$s python3 tools/check.py $p --tier quick > sweep_${p}_s$s.log 2>&1
    echo "seed=$s $p exit=$? $(grep -cE '^VIOLATION' sweep_${p}_s$s.log) violations; $(grep -E '^(MODEL-DRIFT|TOOL-ERROR)' sweep_${p}_s$s.log | head -2 | cut -c1-200)"
  done
done
