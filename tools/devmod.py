#!/usr/bin/env python3
"""Development aid: bind ONE L2 module to the code in both directions without running a whole check.

  devmod.py <Module> <fam> [count]

  1. TLC export run (quick generation config) -> vectors -> replay on the real code (every build the
     configuration stands for) -> recorded events must equal the exported history;
  2. `count` seeded random executions of <fam> per build -> TLC trace validation against the module.
"""
import json
import os
import subprocess
import sys

sys.path.insert(0, os.path.dirname(os.path.abspath(__file__)))
import check as C
import l2
import tracel2


def main():
    mod, fam = sys.argv[1], sys.argv[2]
    count = int(sys.argv[3]) if len(sys.argv) > 3 else 300
    os.makedirs(C.WORK, exist_ok=True)
    env = dict(tlc=C.tlc, fcv=C.fcv, WORK=C.WORK, SPECS=C.SPECS, log=C.log, ToolError=C.ToolError)
    cfgs = l2.MODULE_CFGS[mod]
    r, cached = l2.cached_tlc(env, "gen", os.path.join(C.SPECS, cfgs["mc"]), os.path.join(C.SPECS, cfgs["gen_quick"]), "dev_" + mod,
                              workers=1, xmx="8g", timeout=7200, deque=False)
    print("export:", r["ok"], len(r.get("exported", [])), "behaviours", "(cached)" if cached else "")
    by_build, pred = {}, {}
    for i, ex in enumerate(r["exported"]):
        for (f, cont, n, b) in l2.containers_for(ex["cfg"]):
            vid = "l2-%s-%d-%s-%s-%s" % (mod, i, f, cont, b)
            by_build.setdefault(b, []).append(l2.hist_to_vector(ex["cfg"], ex["hist"], vid, f, cont, n))
            pred[vid] = ex["hist"]
    bad = 0
    for b, vs in by_build.items():
        vf = os.path.join(C.WORK, "dev_vec_%s_%s.ndjson" % (mod, b))
        with open(vf, "w") as fh:
            for v in vs:
                fh.write(json.dumps(v) + "\n")
        trace = os.path.join(C.WORK, "dev_trace_%s_%s.ndjson" % (mod, b))
        p = subprocess.run([C.fcv(b), "run", "--vectors", vf, "--out", trace], capture_output=True, text=True)
        if p.returncode != 0:
            print("harness failed", p.stderr[-500:])
        nd, first, n = 0, None, 0
        for rid, lines in C.split_runs(trace):
            n += 1
            d = l2.first_diff(pred.get(rid, []), l2.norm_real(lines))
            if d is not None:
                nd += 1
                first = first or dict(id=rid, **d)
        viols, runs, stats = C.tracemon(trace, "dev_%s_%s" % (mod, b))
        print("replay [%s]: %d runs, %d differ, monitor violations %d" % (b, n, nd, len(viols)))
        if first:
            print("  first diff:", json.dumps(first)[:600])
            rid = first["id"]
            for rid2, lines in C.split_runs(trace):
                if rid2 == rid:
                    print("  real :", [json.loads(l) for l in lines][max(0, first["pos"] - 3):first["pos"] + 5])
                    print("  pred :", pred[rid][max(0, first["pos"] - 4):first["pos"] + 4])
        for v in viols[:3]:
            print("  VIOL", json.dumps(v)[:400])
        bad += nd + len(viols)
    # impl -> spec
    paths = []
    for b in ("std", "alloc"):
        for prof in ("mixed", "wakeonly", "drop", "panic", "never"):
            tag = "dev_%s_%s_%s" % (mod, b, prof)
            rr = C.run_harness_random(b, [(fam, "x" if fam.startswith("nest") else "arr", 3)], prof, count, 7, tag)
            paths.append(rr[0])
    truns, skipped = tracel2.convert(paths)
    tv = tracel2.validate(truns, C.WORK, "dev_" + mod, workers=8)
    for m2, t in tv.items():
        print("trace validation %s: runs %d accepted %d rejected %d (%.1fs)" % (m2, t["runs"], t["accepted"], t["rejected"], t["secs"]))
        for fr in t["first_rejections"][:2]:
            print("  rejected:", json.dumps(fr)[:900])
        bad += t["rejected"]
    print("skipped:", skipped)
    return 1 if bad else 0


if __name__ == "__main__":
    sys.exit(main())
