#!/usr/bin/env python3
"""Regenerates /verif/MANIFEST.json from the table below (development-time helper)."""
import json
import os

ROOT = os.path.dirname(os.path.dirname(os.path.abspath(__file__)))

COMMON = (" The property is a TLA+ monitor (specs/Monitors.tla: MonStep folds black-box events). TLC checks it (a) as an invariant "
          "of the implementation-shaped L2 specification(s) of the family (%s) for every interleaving of child answers, wake-ups "
          "(between polls, inside polls, stale, repeated, from another thread at the spec's atomicity), spurious polls, drops and "
          "panics within small constants, together with structural invariants and a liveness property under fairness; and (b) on "
          "every trace recorded from the real code (TraceMon.tla). The L2 specs are bound to the code in both directions: every "
          "behaviour TLC exports is replayed on the real combinators (tuple/array/Vec x std/alloc/no_std) and must produce exactly "
          "the predicted events (concurrent streams: must be accepted by trace validation), and a sample of the seeded-random "
          "executions (sizes far beyond the TLC bounds, threads firing wakers concurrently, nests) is checked by TLC to be "
          "behaviours of the L2 spec (Trace_<Module>.tla). Bounded-exhaustive for the design, conformance-tested for the code; not a proof.")

NOTE = ("Trusted: TLC, the Rust harness (scripted children, waker identity by data pointer, wake-only executor model of DESIGN.md 9), "
        "the event alphabet. A VIOLATION is only ever raised by the TLA+ monitor rejecting a trace of the real code; disagreement "
        "between code and L2 spec alone is MODEL-DRIFT (exit 0). Exhaustive only within the constants of each L2 config; third-party "
        "crates (futures-buffered, slab, fixedbitset) are exercised for real and specified abstractly (slab: LIFO free list; "
        "FuturesUnordered: flag per slot, one-shot parent registration, LIFO slot map).")

TECH = ("explicit TLA+ L2 spec model-checked with TLC (safety + liveness) + spec->impl replay of TLC-exported behaviours on the real "
        "code + impl->spec TLC trace validation of recorded executions against the L2 spec and the TLA+ property monitors")

CHECKS = [
    ("C01", "JoinLike, Race, Merge, Zip, Chain, WaitUntil, Groups, CoStream, Nest, NestStream, NestRace, NestChain, NestGroup",
     "no lost wake-ups: parked / mid-poll / progress-at-quiescence obligations over every recorded execution, incl. fresh parent waker per poll, "
     "stale and repeated wakes, wakes from other threads (thread mode: hang detection at quiescence), one level of nesting (join in join, merge in merge, a join raced against a future, a merge under a chain, a FutureGroup of joins as L2 specs; two more shapes on the code side); plus the core of the "
     "sub-waker protocol as an inductive invariant proved with TLAPS for every number of children (specs/tlaps/ReadinessProof.tla, 40 obligations) and "
     "discharged by Apalache with the ready counter for N <= 5 (specs/apalache/ReadinessProto.tla): unbounded polls and wake-ups.", "0, 7 (C01), 2, 5, 6"),
    ("C02", "JoinLike, Race, Merge, Zip, Chain, WaitUntil, Groups, CoStream, Nest, NestStream, NestRace, NestChain, NestGroup",
     "exactly-once ownership: drop ledger (children, values, canaries) over executions with cancellation at every point and a panic injected at any child poll.", "7 (C02)"),
    ("C03", "JoinLike, Race, Merge, Zip, Chain, WaitUntil, Groups, CoStream, Nest, NestStream, NestRace, NestChain, NestGroup",
     "poll discipline: no child poll after Ready/None, outside an owner's poll, after the final result (incl. one more poll after it where the type guards itself).", "7 (C03), 9"),
    ("C04", "JoinLike", "join: positional outputs, resolves exactly in the poll in which the last child resolves; zero children.", "7 (C04)"),
    ("C05", "JoinLike", "try_join: first observed error short-circuits in the same poll, nothing polled afterwards, sibling values dropped; Ok positional.", "7 (C05)"),
    ("C06", "Race", "race: first child seen to resolve wins in the same poll, nothing polled afterwards, losers dropped unfinished.", "7 (C06)"),
    ("C07", "Race", "race_ok (three code shapes: array, Vec/MaybeDone, tuple): first success wins; positional aggregate error in the poll of the last failure; zero children.", "7 (C07)"),
    ("C08", "Merge", "merge: each item exactly once in per-input order, yielded by the poll that took it; None exactly when all inputs ended; zero inputs.", "7 (C08), 8"),
    ("C09", "Zip", "zip: k-th row = k-th items; ends in the poll an input ends; at most one unmatched item per input, dropped not yielded.", "7 (C09)"),
    ("C10", "Chain", "chain: strictly sequential evaluation, nothing lost or reordered, None after the last input.", "7 (C10)"),
    ("C11", "Groups", "FutureGroup: abstract keyed-set semantics (insert/remove/reserve/extend/from_iter with exact, absent and over-estimated iterator size hints/len/contains_key/capacity), slot reuse, exactly-once yield, None iff empty, refill.", "7 (C11)"),
    ("C12", "Groups", "StreamGroup: keyed-set semantics (incl. construction through FromIterator), per-member item order, ended members dropped and forgotten in that poll, None iff no members.", "7 (C12)"),
    ("C13", "CoStream", "for_each: every item exactly once, in-flight closure futures never exceed the limit, resolves only when drained, drop cancels in-flight futures.", "7 (C13)"),
    ("C14", "CoStream", "try_for_each / collect::<Result>: an error is never swallowed, nothing taken from the source afterwards, in-flight futures cancelled not completed.", "7 (C14), 9"),
    ("C15", "CoStream", "adapters: collect = multiset of outputs, map exactly once per item, enumerate = source position, take(n) = first min(n,len) incl. n = 0 and n = usize::MAX; source streams with any valid size hint; size_hint / concurrency_limit plumbing through the adapter stack (L2 conformance only).", "7 (C15), 8"),
    ("C16", "JoinLike, Merge, Zip, Groups", "selective polling (std): a pending child is re-polled only after one of its (slot's) wakers fired.", "7 (C16)"),
    ("C17", "Merge", "merge fairness: an always-ready input is never starved for N consecutive yields (rotating start offset).", "7 (C17)"),
    ("C19", "WaitUntil", "wait_until (future and stream): inner untouched before the deadline resolves, deadline never polled afterwards, result = inner's from that very poll.", "7 (C19)"),
    ("C20", "JoinLike, Race, Merge, Zip, Groups", "concurrent evaluation: all owned children polled before the first Pending; never-completing children do not block siblings.", "7 (C20)"),
]


def main():
    m = dict(
        version=1,
        setup_cmd="python3 tools/check.py --setup",
        hooks=dict(guard="futures_concurrency_verif",
                   enable="rustc --cfg futures_concurrency_verif via /verif/harness/.cargo/config.toml rustflags; no hook commit exists: every listed "
                          "property is observable black-box and the conformance of the L2 specs is established on black-box events (DESIGN.md 5.2)",
                   baseline_off_cmd="cd /repo && cargo test --workspace --no-fail-fast --offline",
                   source_commits=[], add_only=True),
        engines=[dict(name="tla-l2-monitors", path="tools/check.py", serves_properties=[c[0] for c in CHECKS],
                      kind_free_text="TLC model checking of implementation-shaped TLA+ specifications (specs/JoinLike, Race, Merge, Zip, Chain, WaitUntil, "
                                     "Groups, CoStream, Nest, NestStream, NestRace, NestChain, NestGroup on specs/L2Env) with TLA+ property monitors (specs/Monitors) as invariants, liveness under fairness; "
                                     "TLC-exported behaviours replayed on the real code by the Rust harness; recorded executions validated by TLC against the "
                                     "monitors (TraceMon) and against the L2 specs (Trace_<Module>)")],
        checks=[],
        notes="Verdicts come only from the TLA+ monitors rejecting a trace recorded from the real code (DESIGN.md 6). MODEL-DRIFT lines are informational. "
              "known_findings.txt lists three defects repaired by fix: commits in /repo (d54302e, 4cd60bc, 675043b). setup_cmd model-checks and exports every L2 module once; "
              "the checks share those spec-only TLC results through a content-addressed cache (work/l2cache) and recompute them when a module they depend on changes.",
        not_applicable=[dict(property_id="C18", reason="Send/Sync auto-trait preservation is a statement about the trait solver over all instantiations; it has no "
                             "state, transitions or traces for a TLA+ model or trace validation to decide (DESIGN.md 7, C18).")],
    )
    for pid, mods, text, ref in CHECKS:
        m["checks"].append(dict(
            property_id=pid,
            quick_cmd="python3 tools/check.py %s --tier quick" % pid,
            thorough_cmd="python3 tools/check.py %s --tier thorough" % pid,
            evidence_file="/verif/evidence/%s.json" % pid,
            replay_cmd_template="python3 tools/check.py --replay {path}",
            engine="tla-l2-monitors",
            level_claimed=dict(category="model_checking", text=text + COMMON % mods, design_ref="DESIGN.md " + ref),
            level_note=NOTE, technique=TECH))
    with open(os.path.join(ROOT, "MANIFEST.json"), "w") as f:
        json.dump(m, f, indent=1)
    print("wrote MANIFEST.json with %d checks" % len(m["checks"]))


if __name__ == "__main__":
    main()
