#!/usr/bin/env python3
import sys
print("under construction"); sys.exit(0)
