#!/usr/bin/env python3
"""Runner for the model-based verification of futures-concurrency.

  check.py --setup                       build the harness (3 feature configs), parse all specs
  check.py Cxx [--tier quick|thorough]   decide property Cxx (exit 0 / 1 + VIOLATION line / 2 tool error)
  check.py --replay <file>               re-run one saved replay and print the monitor's verdict

Pipeline per property (DESIGN.md sections 2, 5, 6):
  1. rebuild the Rust harness against /repo's current working tree (std, alloc, no_std);
  2. TLC: model-check the implementation-shaped (L2) specifications of the property's
     families with the property monitors as invariants; export behaviours as vectors;
  3. replay the exported vectors and seeded random vectors on the real code (all configs);
  4. TLC (TraceMon.tla): fold every recorded trace through the TLA+ monitors  -> verdict;
     TLC (Trace_<Family>.tla): check that the recorded trace is a behaviour of L2 -> drift;
  5. write evidence/<id>.json.
"""
import argparse
import concurrent.futures as cf
import hashlib
import json
import os
import re
import shutil
import subprocess
import sys
import time

ROOT = os.path.dirname(os.path.dirname(os.path.abspath(__file__)))
HARN = os.path.join(ROOT, "harness")
SPECS = os.path.join(ROOT, "specs")
WORK = os.path.join(ROOT, "work")
REPLAYS = os.path.join(ROOT, "replays")
EVID = os.path.join(ROOT, "evidence")
KNOWN = os.path.join(ROOT, "known_findings.txt")
TLA_CP = "/opt/veriftools/tla/tla2tools.jar:/opt/veriftools/tla/CommunityModules-deps.jar"
CONFIGS = ["std", "alloc", "none"]
NCPU = os.cpu_count() or 4

sys.path.insert(0, os.path.dirname(os.path.abspath(__file__)))

# Development aid (never used by the registered commands): VERIF_REPO=<scratch worktree> runs the same check
# against a scratch copy of the repository.  The harness crate is copied to VERIF_SCRATCH (default
# <worktree>/.verif) with its path dependency redirected; work files, replays and evidence go there too, so
# that several scratch trees can be checked in parallel without touching /repo or /verif/evidence.
if os.environ.get("VERIF_REPO"):
    _repo = os.path.abspath(os.environ["VERIF_REPO"])
    _scr = os.path.abspath(os.environ.get("VERIF_SCRATCH", os.path.join(_repo, ".verif")))
    os.makedirs(_scr, exist_ok=True)
    _h = os.path.join(_scr, "harness")
    os.makedirs(os.path.join(_h, ".cargo"), exist_ok=True)
    shutil.rmtree(os.path.join(_h, "src"), ignore_errors=True)
    shutil.copytree(os.path.join(HARN, "src"), os.path.join(_h, "src"))
    shutil.copy(os.path.join(HARN, "Cargo.lock"), _h)
    shutil.copy(os.path.join(HARN, ".cargo", "config.toml"), os.path.join(_h, ".cargo"))
    with open(os.path.join(_h, "Cargo.toml"), "w") as _f:
        _f.write(open(os.path.join(HARN, "Cargo.toml")).read().replace('path = "/repo"', 'path = "%s"' % _repo))
    HARN, WORK, REPLAYS, EVID = _h, os.path.join(_scr, "work"), os.path.join(_scr, "replays"), os.path.join(_scr, "evidence")
    SCRATCH_BIN = os.path.join(_scr, "bin")
    os.makedirs(SCRATCH_BIN, exist_ok=True)
else:
    SCRATCH_BIN = None


class ToolError(Exception):
    pass


def log(*a):
    print(*a, file=sys.stderr, flush=True)


# --------------------------------------------------------------------------- build
def target_dir(cfg):
    # scratch mode shares one target directory (third-party dependencies are compiled once); the binary is
    # copied out under a lock
    return os.path.join("/tmp/verif-shared-target", cfg) if SCRATCH_BIN else os.path.join(HARN, "target", cfg)


def cargo_cmd(cfg):
    cmd = ["cargo", "build", "--offline", "--quiet", "--target-dir", target_dir(cfg)]
    if cfg == "alloc":
        cmd += ["--no-default-features", "--features", "alloc"]
    elif cfg == "none":
        cmd += ["--no-default-features"]
    return cmd


def fcv(cfg):
    if SCRATCH_BIN:
        return os.path.join(SCRATCH_BIN, "fcv_" + cfg)
    return os.path.join(HARN, "target", cfg, "debug", "fcv")


def build(configs):
    env = dict(os.environ, CARGO_NET_OFFLINE="true")

    def one(cfg):
        t0 = time.time()
        if SCRATCH_BIN:
            import fcntl
            os.makedirs(target_dir(cfg), exist_ok=True)
            with open(os.path.join(target_dir(cfg), ".verif-lock"), "w") as lk:
                fcntl.flock(lk, fcntl.LOCK_EX)
                p = subprocess.run(cargo_cmd(cfg), cwd=HARN, env=env, capture_output=True, text=True)
                if p.returncode == 0:
                    shutil.copy(os.path.join(target_dir(cfg), "debug", "fcv"), fcv(cfg))
                    # every scratch tree is a different package id: drop its artefacts again, keep the third-party ones
                    dbg = os.path.join(target_dir(cfg), "debug")
                    shutil.rmtree(os.path.join(dbg, "incremental"), ignore_errors=True)
                    for sub in ("deps", ".fingerprint"):
                        dd = os.path.join(dbg, sub)
                        for f in os.listdir(dd) if os.path.isdir(dd) else []:
                            if f.startswith(("fcv-", "libfutures_concurrency-", "futures_concurrency-", "futures-concurrency-")):
                                pth = os.path.join(dd, f)
                                shutil.rmtree(pth, ignore_errors=True) if os.path.isdir(pth) else os.remove(pth)
        else:
            p = subprocess.run(cargo_cmd(cfg), cwd=HARN, env=env, capture_output=True, text=True)
        return cfg, p.returncode, p.stderr[-4000:], time.time() - t0

    with cf.ThreadPoolExecutor(max_workers=len(configs)) as ex:
        res = list(ex.map(one, configs))
    for cfg, rc, err, dt in res:
        if rc != 0:
            raise ToolError("cargo build (%s) failed:\n%s" % (cfg, err))
        log("built harness [%s] in %.1fs" % (cfg, dt))


# --------------------------------------------------------------------------- TLC
def tlc(module, cfgfile, metadir, env_extra=None, workers=1, xmx="2g", extra=None, timeout=3600, deque=True):
    env = dict(os.environ)
    jto = "-Xss1g"
    if deque:
        jto += " -Dtlc2.tool.queue.IStateQueue=StateDeque"
    env["JAVA_TOOL_OPTIONS"] = jto
    if env_extra:
        env.update(env_extra)
    gc = "-XX:+UseSerialGC" if workers == 1 else "-XX:+UseParallelGC"
    cmd = ["java", gc, "-Xmx" + xmx, "-cp", TLA_CP, "tlc2.TLC", "-workers", str(workers),
           "-metadir", metadir, "-cleanup", "-noGenerateSpecTE", "-config", cfgfile]
    if extra:
        cmd += extra
    cmd.append(module)
    try:
        p = subprocess.run(cmd, cwd=SPECS, env=env, capture_output=True, text=True, timeout=timeout)
    except subprocess.TimeoutExpired:
        raise ToolError("TLC timed out on %s" % module)
    finally:
        shutil.rmtree(metadir, ignore_errors=True)
    return p.returncode, p.stdout + p.stderr


def unq(line):
    """TLC prints PrintT("X {json}") as a quoted TLA+ string: undo the quoting."""
    line = line.strip()
    if line.startswith('"') and line.endswith('"'):
        line = line[1:-1].replace('\\"', '"').replace("\\\\", "\\")
    return line


def tracemon(trace_path, tag):
    """Fold one ndjson trace file through the TLA+ monitors. Returns (viols, runs, stats)."""
    rc, out = tlc(os.path.join(SPECS, "TraceMon.tla"), os.path.join(SPECS, "TraceMon.cfg"),
                  os.path.join(WORK, "meta_" + tag), env_extra={"TRACE": trace_path})
    viols, runs, stats = [], {}, None
    for line in out.splitlines():
        if line.startswith('"VIOL ') or line.startswith('"RUN ') or line.startswith('"STATS '):
            s = unq(line)
            kind, js = s.split(" ", 1)
            try:
                d = json.loads(js)
            except Exception:
                raise ToolError("cannot parse TraceMon output line: %s" % line[:300])
            if kind == "VIOL":
                viols.append(d)
            elif kind == "RUN":
                runs[d["id"]] = d["armed"]
            else:
                stats = d
    if "Model checking completed. No error has been found." not in out or stats is None:
        # an empty trace file is fine
        if os.path.getsize(trace_path) == 0:
            return [], {}, {"events": 0, "runs": 0, "armed": {}}
        raise ToolError("TraceMon failed on %s:\n%s" % (trace_path, out[-3000:]))
    return viols, runs, stats


# --------------------------------------------------------------------------- plans
ARR_ALL = [0, 1, 2, 3, 4, 5, 6, 8, 12, 23, 65]
VEC_Q = [0, 1, 2, 3, 5, 23, 65]
VEC_T = [0, 1, 2, 3, 4, 5, 8, 22, 23, 24, 63, 64, 65, 128, 200]


def conts(fam, tier, lo):
    """(cont, n) pairs for a family; lo = smallest n for which the family/property is defined."""
    q = tier == "quick"
    arr = [n for n in ([0, 1, 2, 3, 5] if q else ARR_ALL) if n >= lo]
    tup_lo = {"join": 0, "try_join": 0, "merge": 0}.get(fam, 1)
    tup = [n for n in ([0, 1, 2, 3, 4, 12] if q else list(range(0, 13))) if n >= max(lo, tup_lo)]
    vec = [n for n in (VEC_Q if q else VEC_T) if n >= lo]
    # ("vec", 999): a length drawn per vector by the harness (gen.rs pick_len: 0..130, mostly at block / budget boundaries)
    out = [("arr", n) for n in arr] + [("tup", n) for n in tup] + [("vec", n) for n in vec] + [("vec", 999)]
    if fam in ("join", "race", "merge", "zip", "chain"):
        out.append(("ext", 2))
    return out


FAM_LO = {"join": 0, "try_join": 0, "race": 1, "race_ok": 0, "merge": 0, "zip": 1, "chain": 0}
GROUP_SPECS = [("future_group", "plain", 0), ("future_group", "keyed", 0), ("future_group", "keyed", 3),
               ("stream_group", "plain", 0), ("stream_group", "keyed", 0), ("stream_group", "plain", 2)]
# ("co", *, 999): batch runs (co.rs gen_batch): source lengths next to 16 / 32 / 64 / 96, dozens of closure futures in flight,
# all owed wake-ups delivered together, at most one failure at any position
CO_SPECS = [("co", "co", 0), ("co", "co", 1), ("co", "co", 3), ("co", "co", 6), ("co", "vec", 0), ("co", "vec", 2), ("co", "vec", 5),
            ("co", "co", 999), ("co", "vec", 999)]
WAIT_SPECS = [("wait_until", "x", 2), ("wait_until_stream", "x", 2)]


def fam_specs(fams, tier):
    out = []
    for f in fams:
        if f in FAM_LO:
            out += [(f, c, n) for (c, n) in conts(f, tier, FAM_LO[f])]
        elif f == "future_group":
            out += [s for s in GROUP_SPECS if s[0] == "future_group"]
        elif f == "stream_group":
            out += [s for s in GROUP_SPECS if s[0] == "stream_group"]
        elif f == "co":
            out += CO_SPECS
        elif f == "wait_until":
            out += WAIT_SPECS
        elif f == "nest":
            out += [("nest_join_join", "x", 3), ("nest_join_merge", "x", 3), ("nest_merge_groups", "x", 3),
                    ("nest_group_join", "x", 3), ("nest_race_join", "x", 3), ("nest_chain_merge", "x", 3),
                    ("nest_merge_merge", "x", 3)]
    return out


ALL_FAMS = ["join", "try_join", "race", "race_ok", "merge", "zip", "chain", "future_group", "stream_group", "wait_until", "co", "nest"]
CONC_FAMS = ["join", "try_join", "race", "race_ok", "merge", "zip", "future_group", "stream_group"]
SUB_FAMS = ["join", "try_join", "merge", "zip", "future_group", "stream_group"]

# per property: families, profiles (with relative weights), configs, base count per (spec, profile, config)
PLAN = {
    "C01": dict(fams=ALL_FAMS, profiles=["mixed", "wakeonly", "never", "threads"], configs=CONFIGS, count=(14, 150)),
    "C02": dict(fams=ALL_FAMS, profiles=["mixed", "drop", "panic", "threads"], configs=CONFIGS, count=(14, 150)),
    "C03": dict(fams=ALL_FAMS, profiles=["mixed", "wakeonly", "threads"], configs=CONFIGS, count=(18, 200)),
    "C20": dict(fams=CONC_FAMS, profiles=["never", "mixed", "threads"], configs=CONFIGS, count=(25, 250)),
    "C04": dict(fams=["join"], profiles=["mixed", "wakeonly"], configs=CONFIGS, count=(120, 1500)),
    "C05": dict(fams=["try_join"], profiles=["mixed", "wakeonly", "allerr"], configs=CONFIGS, count=(100, 1200)),
    "C06": dict(fams=["race"], profiles=["mixed", "wakeonly"], configs=CONFIGS, count=(130, 1500)),
    "C07": dict(fams=["race_ok"], profiles=["mixed", "wakeonly", "allerr"], configs=CONFIGS, count=(100, 1200)),
    "C08": dict(fams=["merge"], profiles=["mixed", "wakeonly"], configs=CONFIGS, count=(110, 1500)),
    "C09": dict(fams=["zip"], profiles=["mixed", "wakeonly"], configs=CONFIGS, count=(130, 1500)),
    "C10": dict(fams=["chain"], profiles=["mixed", "wakeonly"], configs=CONFIGS, count=(120, 1500)),
    "C11": dict(fams=["future_group"], profiles=["mixed", "ops"], configs=["std", "alloc"], count=(1300, 12000)),
    "C12": dict(fams=["stream_group"], profiles=["mixed", "ops"], configs=["std", "alloc"], count=(1100, 10000)),
    "C13": dict(fams=["co"], profiles=["for_each"], configs=["std", "alloc"], count=(900, 9000)),
    "C14": dict(fams=["co"], profiles=["try"], configs=["std", "alloc"], count=(900, 9000)),
    "C15": dict(fams=["co"], profiles=["collect", "mixed"], configs=["std", "alloc"], count=(600, 6000)),
    "C16": dict(fams=SUB_FAMS, profiles=["mixed", "wakeonly"], configs=["std"], count=(60, 700)),
    "C17": dict(fams=["merge"], profiles=["fair"], configs=CONFIGS, count=(120, 1500)),
    "C19": dict(fams=["wait_until"], profiles=["mixed", "wakeonly"], configs=CONFIGS, count=(1500, 15000)),
}

# which monitor obligations make a run non-trivial for a property (any of these armed)
NONTRIVIAL = {
    "C01": ["C01.parked_wake", "C01.midpoll_wake_at_pending", "C01.wake_mid_poll", "C01.stale_waker", "quiesce.parked"],
    "C02": ["C02.drop_midflight", "C02.unreturned_values"],
    "C03": ["C01.wake_finished_child", "C01.stale_waker", "C01.repoll_after_wake", "C01.wake_after_final"],
    "C20": ["C20.never", "C20.pending_multi"],
    "C04": ["C04.ret.pending"], "C05": ["C05.ret.pending", "C05.ret.ready.err"], "C06": ["C06.ret.pending"],
    "C07": ["C07.ret.pending", "C07.ret.ready.err"], "C08": ["C08.ret.some", "C08.ret.pending"],
    "C09": ["C09.buffered", "C09.ret.pending"], "C10": ["C10.ret.pending", "C10.ret.some"],
    "C11": ["group.slot_reuse", "group.remove_live", "group.refill_after_none", "C11.ret.pending"],
    "C12": ["group.slot_reuse", "group.remove_live", "group.refill_after_none", "C12.ret.pending"],
    "C13": ["C13.at_limit", "C13.ret.pending"], "C14": ["C14.ret.ready.err", "C14.ret.pending"],
    "C15": ["C15.enumerate", "C15.take", "C15.map"],
    "C16": ["C16.repoll", "C16.selective"], "C17": ["C17.yield"],
    "C19": ["C19.before_deadline"],
}


def supported(cfg, fam, cont):
    if cfg == "none":
        if cont in ("vec",) or fam in ("future_group", "stream_group", "co") or fam.startswith("nest"):
            return False
    return True


# --------------------------------------------------------------------------- known findings
def load_known():
    known = []
    if os.path.exists(KNOWN):
        for line in open(KNOWN):
            line = line.strip()
            if line.startswith("known:"):
                m = re.match(r"known:\s+property=(C\d+)\s+match=(\S+)\s+(.*)", line)
                if m:
                    known.append(dict(prop=m.group(1), match=m.group(2), what=m.group(3)))
    return known


def is_known(known, prop, vid, reason):
    for k in known:
        if k["prop"] == prop and re.search(k["match"], vid + " " + reason):
            return k
    return None


# --------------------------------------------------------------------------- main check
def split_runs(trace_path):
    """yield (id, [lines]) per run of a concatenated trace file."""
    cur_id, cur = None, []
    with open(trace_path) as f:
        for line in f:
            if line.startswith('{"e":"new"'):
                if cur_id is not None:
                    yield cur_id, cur
                try:
                    cur_id = json.loads(line)["id"]
                except Exception:
                    cur_id = "?"
                cur = [line]
            else:
                cur.append(line)
    if cur_id is not None:
        yield cur_id, cur


def run_harness_random(cfg, specs, profile, count, seed, tag):
    trace = os.path.join(WORK, "trace_%s.ndjson" % tag)
    vecs = os.path.join(WORK, "vec_%s.ndjson" % tag)
    spec = ",".join("%s:%s:%d" % s for s in specs)
    if not spec:
        open(trace, "w").close()
        open(vecs, "w").close()
        return trace, vecs
    p = subprocess.run([fcv(cfg), "random", "--spec", spec, "--count", str(count), "--seed", str(seed),
                        "--profile", profile, "--out", trace, "--vec-out", vecs],
                       capture_output=True, text=True, timeout=3600)
    if p.returncode != 0:
        # a crash of the process (abort, stack overflow, UB) is data about the code under test,
        # attributed to the last vector whose `new` line was written
        log("harness [%s] exited with %d: %s" % (cfg, p.returncode, p.stderr[-500:]))
        return trace, vecs, p.returncode
    return trace, vecs


def run_harness_vectors(cfg, vecfile, tag):
    trace = os.path.join(WORK, "trace_%s.ndjson" % tag)
    p = subprocess.run([fcv(cfg), "run", "--vectors", vecfile, "--out", trace], capture_output=True, text=True, timeout=3600)
    if p.returncode != 0:
        raise ToolError("harness run failed: %s" % p.stderr[-2000:])
    return trace


def find_vector(vecfile, vid):
    with open(vecfile) as f:
        for line in f:
            if ('"id":"%s"' % vid) in line or ('"id": "%s"' % vid) in line:
                return json.loads(line)
    return None


def save_replay(prop, cfg, vector, viols, lines):
    os.makedirs(REPLAYS, exist_ok=True)
    h = hashlib.sha1((cfg + json.dumps(vector, sort_keys=True)).encode()).hexdigest()[:12]
    path = os.path.join(REPLAYS, "%s-%s.json" % (prop, h))
    with open(path, "w") as f:
        json.dump(dict(property=prop, feat=cfg, vector=vector, violations=viols, trace=[l.strip() for l in lines][:400]), f, indent=1)
    return path


def check(prop, tier, seed):
    t0 = time.time()
    if prop not in PLAN:
        raise ToolError("no check for %s" % prop)
    plan = PLAN[prop]
    os.makedirs(WORK, exist_ok=True)
    os.makedirs(EVID, exist_ok=True)
    for f in os.listdir(WORK):          # leftovers of earlier runs of this check
        if f.startswith(("trace_%s_" % prop, "vec_%s_" % prop)):
            os.remove(os.path.join(WORK, f))
    configs = plan["configs"]
    build(configs)

    import l2  # L2 model checking / export / conformance (tools/l2.py)
    l2res = l2.run_for_property(prop, tier, seed, plan, dict(tlc=tlc, fcv=fcv, WORK=WORK, SPECS=SPECS, log=log, ToolError=ToolError,
                                                                tracemon=tracemon, split_runs=split_runs))

    count = plan["count"][0 if tier == "quick" else 1]
    specs = fam_specs(plan["fams"], tier)
    jobs = []
    for cfg in configs:
        sp = [s for s in specs if supported(cfg, s[0], s[1])]
        for pi, profile in enumerate(plan["profiles"]):
            # shard the spec list so that every TLC process gets a similar amount of work
            nshards = max(1, min(4 if tier == "quick" else 8, len(sp)))
            for sh in range(nshards):
                part = sp[sh::nshards]
                tag = "%s_%s_%s_%d" % (prop, cfg, profile, sh)
                jobs.append((cfg, part, profile, max(30, count) if profile == "threads" else count, seed * 1000 + pi * 17 + sh, tag))

    def do(job):
        cfg, part, profile, cnt, sd, tag = job
        r = run_harness_random(cfg, part, profile, cnt, sd, tag)
        crashed = len(r) == 3
        trace, vecs = r[0], r[1]
        viols, runs, stats = tracemon(trace, tag)
        return job, trace, vecs, viols, runs, stats, crashed

    results = []
    with cf.ThreadPoolExecutor(max_workers=max(2, min(10, NCPU - 2))) as ex:
        for r in ex.map(do, jobs):
            results.append(r)

    # impl -> spec: a sample of the randomly driven executions must be behaviours of the L2 specifications
    import tracel2
    paths = [r[1] for r in results]
    kmod = 400 if tier == "quick" else 6000
    try:
        truns, tskipped = tracel2.convert_balanced(paths, kmod)
        tval = tracel2.validate(truns, WORK, prop, workers=max(2, NCPU // 2))
    except RuntimeError as e:
        raise ToolError(str(e))
    for mod, tv in tval.items():
        if tv["rejected"]:
            print("MODEL-DRIFT family=%s trace-validation: %d of %d sampled real executions are not behaviours of the L2 spec; first: %s"
                  % (mod, tv["rejected"], tv["runs"], json.dumps(tv["first_rejections"][:1])[:700]))

    known = load_known()
    total_runs = 0
    total_events = 0
    armed_tot = {}
    distinct_nontrivial = set()
    distinct_all = set()
    samples = []
    violations = []      # (cfg, id, reasons, vecfile, trace)
    known_hits = []
    other_props = {}
    crashed_any = []
    want = set(NONTRIVIAL.get(prop, []))
    for job, trace, vecs, viols, runs, stats, crashed in results + l2res.get("mon_results", []):
        cfg = job[0]
        total_runs += stats["runs"]
        total_events += stats["events"]
        for k, v in stats["armed"].items():
            armed_tot[k] = armed_tot.get(k, 0) + v
        if crashed:
            crashed_any.append((cfg, trace))
        byid = {}
        for v in viols:
            for b in v["bad"]:
                p = b[0]
                if p == prop:
                    byid.setdefault(v["id"], []).append(b[1])
                else:
                    other_props[p] = other_props.get(p, 0) + 1
        for rid, lines in split_runs(trace):
            h = hashlib.sha1("".join(lines[1:]).encode() + lines[0].split('"fam"')[1].encode()).hexdigest()
            distinct_all.add(h)
            if want & set(runs.get(rid, [])):
                distinct_nontrivial.add(h)
                if len(samples) < 3 and len(lines) < 80:
                    samples.append(dict(id=rid, config=cfg, trace=[json.loads(l) for l in lines]))
            if rid in byid:
                violations.append((cfg, rid, byid[rid], vecs, lines))

    # H00 = harness protocol errors: the machinery itself is wrong
    if other_props.get("H00"):
        raise ToolError("harness protocol violations (H00) seen: the machinery is inconsistent")

    out_lines = []
    nviol = 0
    seen_replays = set()
    for cfg, rid, reasons, vecs, lines in violations:
        reason_s = json.dumps(reasons)
        k = is_known(known, prop, rid, reason_s)
        if k:
            known_hits.append((k, rid))
            continue
        vec = find_vector(vecs, rid) if vecs else None
        path = save_replay(prop, cfg, vec or {"id": rid}, reasons, lines)
        nviol += 1
        if path not in seen_replays and len(seen_replays) < 8:
            seen_replays.add(path)
            out_lines.append("VIOLATION property=%s replay=%s" % (prop, path))
            log("  %s [%s]: %s" % (rid, cfg, reason_s[:300]))
    for (cfg, trace) in crashed_any:
        # process-level crash of the code under test
        path = os.path.join(REPLAYS, "%s-crash-%s.txt" % (prop, cfg))
        os.makedirs(REPLAYS, exist_ok=True)
        shutil.copy(trace, path)
        nviol += 1
        out_lines.append("VIOLATION property=%s replay=%s" % (prop, path))
    for p, v in l2res.get("violations", []):
        nviol += 1
        out_lines.append("VIOLATION property=%s replay=%s" % (p, v))

    printed_known = set()
    for k, rid in known_hits:
        if k["what"] not in printed_known:
            printed_known.add(k["what"])
            print("KNOWN-FINDING: property=%s %s" % (prop, k["what"]))

    # vacuity guard: the property's obligations must have been exercised
    if not distinct_nontrivial:
        raise ToolError("vacuity: no run exercised %s's obligations %s" % (prop, sorted(want)))

    if not samples:
        for job, trace, vecs, viols, runs, stats, crashed in results[:1]:
            for rid, lines in split_runs(trace):
                samples.append(dict(id=rid, trace=[json.loads(l) for l in lines][:60]))
                break
    wall = time.time() - t0
    ev = dict(
        property_id=prop, tier=tier, seed=seed, level="model_checking",
        coverage=dict(
            states=max(1, l2res.get("states", 0)), transitions=max(1, l2res.get("transitions", 0)),
            exhaustive=bool(l2res.get("exhaustive", False)),
            l2_models=l2res.get("models", []),
            traces_validated_against_impl=total_runs,
            l2_vectors_replayed=l2res.get("replayed", 0),
            l2_conformance=l2res.get("conformance", {}),
            l2_trace_validation=dict(per_module=tval, not_modelled=tskipped,
                                     rule="sampled randomly driven executions of the real code checked by TLC to be behaviours of "
                                          "the L2 specification (Trace_<Module>.tla: L2 Next constrained to emit exactly the recorded events)"),
            drift=l2res.get("drift", []),
            events_monitored=total_events,
            evaluations=total_runs,
            distinct_traces=len(distinct_all),
            distinct_nontrivial=len(distinct_nontrivial),
            rule="a case is one recorded execution of the real code (a vector: per-child scripts + caller commands, replayed "
                 "from a TLC-exported L2 behaviour or drawn by the seeded generator); distinct = different event sequence; "
                 "non-trivial = the TLA+ monitor armed at least one of %s in it" % sorted(want),
            obligations_armed={k: v for k, v in sorted(armed_tot.items())},
            configs=configs, families=plan["fams"], profiles=plan["profiles"],
            samples=samples,
            other_property_violations_seen=other_props,
        ),
        assumptions=[
            "TLC results are exhaustive only within the constants of each L2 config (see l2_models)",
            "third-party crates (futures-buffered, slab, fixedbitset, smallvec) are exercised for real but specified only abstractly",
            "executor model: polls first, after the latest parent waker was invoked, right after an item, after a group operation (DESIGN.md 9)",
            "the harness never polls after a final result",
        ],
        wall_s=round(wall, 2), violations=nviol,
    )
    with open(os.path.join(EVID, "%s.json" % prop), "w") as f:
        json.dump(ev, f, indent=1)
    if not os.environ.get("VERIF_KEEP_WORK"):
        for f in os.listdir(WORK):          # the replay files carry the traces that matter
            if f.startswith(("trace_%s_" % prop, "vec_%s_" % prop, "l2runs_%s" % prop, "l2diag_%s" % prop)):
                try:
                    os.remove(os.path.join(WORK, f))
                except OSError:
                    pass
    for l in out_lines:
        print(l)
    print("%s %s: %d real executions (%d distinct, %d non-trivial), %d events monitored, L2 states %d, violations %d, %.1fs"
          % (prop, tier, total_runs, len(distinct_all), len(distinct_nontrivial), total_events, l2res.get("states", 0), nviol, wall))
    return 1 if nviol else 0


def replay(path):
    d = json.load(open(path))
    cfg = d.get("feat", "std")
    build([cfg])
    os.makedirs(WORK, exist_ok=True)
    vf = os.path.join(WORK, "replay_vec.ndjson")
    with open(vf, "w") as f:
        f.write(json.dumps(d["vector"]) + "\n")
    trace = run_harness_vectors(cfg, vf, "replay")
    sys.stdout.write(open(trace).read())
    viols, runs, stats = tracemon(trace, "replay")
    bad = [b for v in viols for b in v["bad"]]
    for b in bad:
        print("MONITOR %s: %s" % (b[0], json.dumps(b[1])))
    prop = d.get("property")
    if any(b[0] == prop for b in bad):
        print("VIOLATION property=%s replay=%s" % (prop, path))
        return 1
    print("no violation of %s in this replay" % prop)
    return 0


def setup():
    os.makedirs(WORK, exist_ok=True)
    build(CONFIGS)
    mods = [f for f in sorted(os.listdir(SPECS)) if f.endswith(".tla")]
    for mname in mods:
        p = subprocess.run(["java", "-cp", TLA_CP, "tla2sany.SANY", mname], cwd=SPECS, capture_output=True, text=True)
        if p.returncode != 0 or "Semantic errors" in p.stdout or "Parse Error" in p.stdout or "Fatal" in p.stdout:
            raise ToolError("SANY failed on %s:\n%s" % (mname, p.stdout[-2000:]))
    log("parsed %d TLA+ modules" % len(mods))
    # spec-only work shared by all checks: model-check and export every L2 module once (cached by content hash)
    import l2
    bad = l2.prewarm(dict(tlc=tlc, WORK=WORK, SPECS=SPECS, log=log))
    if bad:
        raise ToolError("TLC reports an error in an L2 specification: %s" % [(b[0], b[1]) for b in bad])
    return 0


def main():
    ap = argparse.ArgumentParser()
    ap.add_argument("prop", nargs="?")
    ap.add_argument("--tier", default=os.environ.get("VERIF_TIER", "quick"))
    ap.add_argument("--setup", action="store_true")
    ap.add_argument("--replay")
    a = ap.parse_args()
    seed = int(os.environ.get("VERIF_SEED", "1"))
    try:
        if a.setup:
            sys.exit(setup())
        if a.replay:
            sys.exit(replay(a.replay))
        if not a.prop:
            ap.error("property id required")
        tier = a.tier if a.tier in ("quick", "thorough") else "quick"
        sys.exit(check(a.prop, tier, seed))
    except ToolError as e:
        print("TOOL-ERROR: %s" % e)
        sys.exit(2)
    except SystemExit:
        raise
    except BaseException as e:      # a defect of the machinery is never reported as a violation (exit 1)
        import traceback
        traceback.print_exc()
        print("TOOL-ERROR: internal error of the checker: %r" % (e,))
        sys.exit(2)


if __name__ == "__main__":
    main()
