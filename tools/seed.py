#!/usr/bin/env python3
"""Development-time script (not a registered check): validate and store seeded faulty changes,
and run the registered checks against them.

  seed.py validate <prop> <k> <worktree> <outdir>   confirm: builds x3, suite green, demo fails with / passes without;
                                                     store as /verif/seeded/<prop>-<k>/
  seed.py detect <seed-id> [props...]               apply to /repo, run quick checks, undo, record the outcome
"""
import json
import os
import re
import subprocess
import sys
import time

ROOT = os.path.dirname(os.path.dirname(os.path.abspath(__file__)))
SEEDED = os.path.join(ROOT, "seeded")


def sh(cmd, cwd=None, timeout=3600):
    p = subprocess.run(cmd, cwd=cwd, shell=True, capture_output=True, text=True, timeout=timeout)
    return p.returncode, p.stdout + p.stderr


def demo_flags(notes, k):
    # feature flags the demo needs, if the notes say so for this change
    return ""


def validate(prop, k, wt, outdir):
    patch = os.path.join(outdir, "patch%s.diff" % k)
    demo = os.path.join(outdir, "demo%s.rs" % k)
    notes = os.path.join(outdir, "notes.md")
    sid = os.environ.get("SEED_PREFIX", "") + "%s-%s" % (prop, k)
    dest = os.path.join(SEEDED, sid)
    res = dict(id=sid, property=prop, ran=[])
    tname = "seed_demo_%s_%s" % (sid.lower().replace("-", "_"), k)
    tfile = os.path.join(wt, "tests", tname + ".rs")

    def step(name, cmd, cwd=wt):
        t0 = time.time()
        rc, out = sh(cmd, cwd)
        res["ran"].append(dict(step=name, cmd=cmd, rc=rc, secs=round(time.time() - t0, 1)))
        return rc, out

    sh("git checkout -- . && git clean -fdq -e target", wt)
    flags = os.environ.get("DEMO_FLAGS", "")
    # 1. demo on the unmodified tree must pass
    sh("cp %s %s" % (demo, tfile))
    rc, out = step("demo-on-clean", "cargo test --offline %s --test %s 2>&1 | tail -15" % (flags, tname))
    ok_clean = "test result: ok" in out and "FAILED" not in out
    # 2. apply; builds; suite; demo must fail
    rc, out = step("apply", "git apply %s" % patch)
    if rc != 0:
        print("patch does not apply", out)
        return 1
    builds = True
    for f in ["", "--no-default-features --features alloc", "--no-default-features"]:
        rc, out = step("build " + f, "cargo build --offline %s 2>&1 | tail -3" % f)
        if "error" in out and "warning: unused" not in out and rc != 0 or "could not compile" in out:
            builds = False
    os.remove(tfile)
    rc, out = step("suite", "cargo test --workspace --no-fail-fast --offline 2>&1 | grep -E '^test result|FAILED|failed' ")
    suite_ok = "FAILED" not in out and "failed;" in out and not re.search(r"[1-9]\d* failed", out)
    sh("cp %s %s" % (demo, tfile))
    rc, out = step("demo-on-patched", "timeout 300 cargo test --offline %s --test %s 2>&1 | tail -15" % (flags, tname))
    demo_fails = ("FAILED" in out) or ("panicked" in out) or rc != 0 and "test result: ok" not in out
    demo_fail_out = out[-600:]
    sh("git checkout -- . && git clean -fdq -e target", wt)
    res.update(ok_clean=ok_clean, builds=builds, suite_ok=suite_ok, demo_fails=demo_fails)
    print(json.dumps({k2: v for k2, v in res.items() if k2 != "ran"}))
    if not (ok_clean and builds and suite_ok and demo_fails):
        print("REJECTED", sid)
        print(demo_fail_out)
        return 1
    os.makedirs(dest, exist_ok=True)
    sh("cp %s %s/patch.diff && cp %s %s/demo.rs" % (patch, dest, demo, dest))
    needs = ""
    if os.path.exists(notes):
        needs = open(notes).read()
        sh("cp %s %s/notes.md" % (notes, dest))
    meta = dict(id=sid, breaks=prop, needs_to_manifest="see notes.md (section for change %s)" % k,
                confirmed=dict(demo_passes_on_unmodified=ok_clean, builds_all_configs=builds,
                               existing_suite_passes=suite_ok, demo_fails_with_change=demo_fails),
                ran=res["ran"], demo_flags=flags, detection={})
    json.dump(meta, open(os.path.join(dest, "meta.json"), "w"), indent=1)
    print("STORED", dest)
    return 0


def detect(sid, props):
    """Run the quick checks against a scratch worktree of /repo with the seeded change applied
    (check.py's VERIF_REPO development mode), so that /repo itself is never modified and several
    detections can run side by side.  SEED_TIER=thorough selects the thorough tier."""
    dest = os.path.join(SEEDED, sid)
    meta = json.load(open(os.path.join(dest, "meta.json")))
    if not props:
        props = meta.get("checks") or [meta["breaks"]]
    tier = os.environ.get("SEED_TIER", "quick")
    wt = "/tmp/sd/%s" % sid
    sh("mkdir -p /tmp/sd; git -C /repo worktree remove --force %s; rm -rf %s" % (wt, wt))
    rc, out = sh("git -C /repo worktree add -q --detach %s HEAD" % wt)
    if rc != 0:
        print("cannot create worktree", out)
        return 2
    try:
        rc, out = sh("git apply %s/patch.diff" % dest, wt)
        if rc != 0:
            print("patch does not apply", out)
            return 2
        for p in props:
            t0 = time.time()
            rc, out = sh("VERIF_REPO=%s python3 tools/check.py %s --tier %s" % (wt, p, tier), ROOT, timeout=4 * 3600)
            viol = [l for l in out.splitlines() if l.startswith("VIOLATION")]
            tail = [l for l in out.splitlines() if l.strip()][-1:] if out.strip() else []
            meta.setdefault("detection", {})[p] = dict(exit=rc, violations=len(viol), secs=round(time.time() - t0, 1), tier=tier,
                                                       first=(viol[0] if viol else ""), summary=tail)
            print("%s vs %s: exit %d, %d VIOLATION lines (%.0fs) %s" % (sid, p, rc, len(viol), time.time() - t0, tail), flush=True)
            drift = [l for l in out.splitlines() if l.startswith("MODEL-DRIFT")]
            if drift:
                meta["detection"][p]["model_drift"] = [d[:400] for d in drift[:4]]
            why = [l for l in out.splitlines() if l.startswith("  ") and "[" in l][:2]
            if why:
                meta["detection"][p]["why"] = why
            if rc == 2:
                meta["detection"][p]["tool_error"] = out[-1500:]
    finally:
        sh("git -C /repo worktree remove --force %s; rm -rf %s; git -C /repo worktree prune" % (wt, wt))
    json.dump(meta, open(os.path.join(dest, "meta.json"), "w"), indent=1)
    return 0


if __name__ == "__main__":
    if sys.argv[1] == "validate":
        sys.exit(validate(*sys.argv[2:6]))
    elif sys.argv[1] == "detect":
        sys.exit(detect(sys.argv[2], sys.argv[3:]))
