"""L2 (implementation-shaped specification) steps of a check:

  mc      TLC model-checks the family's L2 spec with the property monitors as invariants
          (safety configs with all workers; a liveness config under fairness);
  gen     TLC exports one behaviour per end-of-run transition of the reduced state graph
          (VIEW hides the history) as JSON; each becomes a vector for the harness;
  replay  the vectors are executed on the real code (every container / feature build the
          L2 variant stands for); the recorded trace must equal the predicted one (else:
          MODEL-DRIFT, informational) and goes through TraceMon (the verdict).
"""
import concurrent.futures as cf
import json
import os
import re
import subprocess
import time

TLA_CP = "/opt/veriftools/tla/tla2tools.jar:/opt/veriftools/tla/CommunityModules-deps.jar"

# family -> (module, which configs exist)
# wall-clock budget of one thorough safety run of one L2 module (breadth-first: what is explored is complete up
# to the depth reached; the evidence says whether the run finished)
THOROUGH_BUDGET_S = int(os.environ.get("VERIF_TLC_BUDGET_S", "900"))
EXPORT_CAP = 60000

LIVE_PROPS = ("C01", "C20", "C04", "C05", "C06", "C07", "C08", "C09", "C10", "C11", "C12", "C13", "C14", "C15", "C19")

FAMILY_MODULE = {
    "join": "JoinLike", "try_join": "JoinLike",
    "race": "Race", "race_ok": "Race",
    "merge": "Merge", "zip": "Zip", "chain": "Chain", "wait_until": "WaitUntil",
    "future_group": "Groups", "stream_group": "Groups", "co": "CoStream", "nest": ["Nest", "NestStream", "NestRace", "NestChain", "NestGroup", "NestMG"],
}
# modules whose behaviours leave an order to third-party code (FuturesUnordered): replays are checked by TLC trace
# validation against the L2 spec instead of an event-by-event comparison with the exported behaviour
INEXACT = {"CoStream"}

# per module: names of the quick / thorough cfg files (without directory)
MODULE_CFGS = {
    "JoinLike": dict(mc_quick="MC_JoinLike_quick.cfg", mc_thorough="MC_JoinLike_thorough.cfg",
                     gen_quick="MC_JoinLike_genq.cfg", gen_thorough="MC_JoinLike_gen.cfg",
                     live_quick="MC_JoinLike_liveq.cfg", live_thorough="MC_JoinLike_live.cfg",
                     mc="MC_JoinLike.tla"),
}
for _m in ("Race", "Merge", "Zip", "Chain", "WaitUntil", "Groups", "CoStream", "Nest", "NestStream", "NestRace", "NestChain", "NestGroup", "NestMG"):
    MODULE_CFGS[_m] = dict(mc_quick="MC_%s_quick.cfg" % _m, mc_thorough="MC_%s_thorough.cfg" % _m,
                           gen_quick="MC_%s_genq.cfg" % _m, gen_thorough="MC_%s_gen.cfg" % _m,
                           live_quick="MC_%s_liveq.cfg" % _m, live_thorough="MC_%s_live.cfg" % _m,
                           mc="MC_%s.tla" % _m)


import hashlib


def _module_closure(SPECS, root_mod):
    """The modules of /verif/specs that root_mod depends on (EXTENDS / INSTANCE, transitively), itself included."""
    seen, todo = set(), [root_mod.replace(".tla", "")]
    while todo:
        mname = todo.pop()
        pth = os.path.join(SPECS, mname + ".tla")
        if mname in seen or not os.path.exists(pth):
            continue
        seen.add(mname)
        txt = re.sub(r"\(\*.*?\*\)", " ", open(pth).read(), flags=re.S)
        txt = re.sub(r"\\\*.*", " ", txt)
        for mm in re.finditer(r"\bEXTENDS\b([^\n]*(?:\n\s+[A-Za-z_][\w, ]*)*)", txt):
            todo.extend(x.strip() for x in re.split(r"[,\s]+", mm.group(1)) if x.strip())
        todo.extend(re.findall(r"\bINSTANCE\s+([A-Za-z_]\w*)", txt))
    return sorted(seen)


def _spec_hash(SPECS, names, root_mod=None):
    """Content hash of everything a TLC run on root_mod can depend on: the modules in its EXTENDS / INSTANCE
    closure and the given extra files (the cfg)."""
    mods = [x + ".tla" for x in _module_closure(SPECS, root_mod)] if root_mod else \
        sorted(f for f in os.listdir(SPECS) if f.endswith(".tla"))
    h = hashlib.sha1()
    for n in sorted(set(names) | set(mods)):
        pth = os.path.join(SPECS, n)
        if os.path.exists(pth):
            h.update(n.encode())
            h.update(open(pth, "rb").read())
    return h.hexdigest()[:16]


def cached_tlc(env, kind, mcmod, cfgfile, tag, **kw):
    """Run TLC on a specification (no dependence on the code under test) and cache the parsed result under
    /verif/work/l2cache, keyed by the content of all modules and of the cfg file: model checking the L2
    specs is a statement about the specification alone, so every check that needs the same module/config
    shares one run.  Returns (result dict, was_cached)."""
    SPECS = env["SPECS"]
    root = os.path.dirname(SPECS)
    cdir = os.path.join(root, "work", "l2cache")
    os.makedirs(cdir, exist_ok=True)
    key = "%s_%s_%s" % (kind, os.path.basename(cfgfile).replace(".cfg", ""), _spec_hash(SPECS, [os.path.basename(cfgfile)], os.path.basename(mcmod)))
    cpath = os.path.join(cdir, key + ".json")
    if os.path.exists(cpath) and not os.environ.get("VERIF_NO_L2_CACHE"):
        try:
            return json.load(open(cpath)), True
        except Exception:
            pass
    t0 = time.time()
    budget = kw.pop("budget_s", None)
    partial = False
    if budget:
        out, partial = budgeted_tlc(env, mcmod, cfgfile, os.path.join(env["WORK"], "tlc_%s_%d" % (tag, os.getpid())), budget, **kw)
    else:
        rc, out = env["tlc"](mcmod, cfgfile, os.path.join(env["WORK"], "tlc_%s_%d" % (tag, os.getpid())), **kw)
    gen, dist, ok, cov = parse_tlc(out)
    if partial:
        # stopped at the wall-clock budget: breadth-first exploration up to the depth reached, no error so far
        pm = re.findall(r"Progress\((\d+)\) at [^:]+:\d+:\d+: ([\d,]+) states generated(?: \([^)]*\))?, ([\d,]+) distinct states found", out)
        if pm:
            gen, dist = int(pm[-1][1].replace(",", "")), int(pm[-1][2].replace(",", ""))
        ok = "Error:" not in out and "violated" not in out
    res = dict(states=dist, transitions=gen, ok=ok, cov=cov, secs=round(time.time() - t0, 1), out_tail=out[-3000:],
               complete=not partial, depth_reached=(int(pm[-1][0]) if partial and pm else None))
    if kind == "gen":
        res["exported"] = [json.loads(unq(line)[4:]) for line in out.splitlines() if line.startswith('"VEC ')]
    if ok:
        tmp = cpath + ".%d.tmp" % os.getpid()
        with open(tmp, "w") as f:
            json.dump(res, f)
        os.replace(tmp, cpath)
        # entries of older versions of the specification are dead weight
        prefix = "%s_%s_" % (kind, os.path.basename(cfgfile).replace(".cfg", ""))
        for f in os.listdir(cdir):
            if f.startswith(prefix) and f.endswith(".json") and os.path.join(cdir, f) != cpath:
                try:
                    os.remove(os.path.join(cdir, f))
                except OSError:
                    pass
    return res, False


def budgeted_tlc(env, module, cfgfile, metadir, budget_s, workers=1, xmx="12g", extra=None, timeout=None, deque=False):
    """TLC under a wall-clock budget: (output, stopped_early)."""
    envv = dict(os.environ, JAVA_TOOL_OPTIONS="-Xss1g")
    cmd = ["java", "-XX:+UseParallelGC", "-Xmx" + xmx, "-cp", TLA_CP, "tlc2.TLC", "-workers", str(workers), "-metadir", metadir,
           "-cleanup", "-noGenerateSpecTE", "-config", cfgfile] + (extra or []) + [module]
    logp = metadir + ".log"
    os.makedirs(os.path.dirname(logp), exist_ok=True)
    stopped = False
    with open(logp, "w") as lf:
        p = subprocess.Popen(cmd, cwd=env["SPECS"], env=envv, stdout=lf, stderr=subprocess.STDOUT)
        try:
            p.wait(timeout=budget_s)
        except subprocess.TimeoutExpired:
            stopped = True
            p.kill()
            p.wait()
    out = open(logp).read()
    subprocess.run(["rm", "-rf", metadir, logp])
    return out, stopped


def parse_tlc(out):
    m = re.search(r"(\d+) states generated, (\d+) distinct states found", out)
    gen, dist = (int(m.group(1)), int(m.group(2))) if m else (0, 0)
    ok = "Model checking completed. No error has been found." in out
    cov = {}
    for mm in re.finditer(r"^<(\w+) line \d+, col \d+ to line \d+, col \d+ of module \w+( \([^)]*\))?>: (\d+):(\d+)", out, re.M):
        cov[mm.group(1)] = cov.get(mm.group(1), 0) + int(mm.group(4))
    return gen, dist, ok, cov


def unq(line):
    line = line.strip()
    if line.startswith('"') and line.endswith('"'):
        line = line[1:-1].replace('\\"', '"').replace("\\\\", "\\")
    return line


# --------------------------------------------------------------------------- hist -> vector
RMAP = {"pending": "p", "ready": "r", "some": "s", "none": "n", "panic": "x"}


def containers_for(cfg):
    """(fam, cont, n, build) combinations of the real code that an L2 configuration stands for."""
    fam = cfg.get("kind") or cfg.get("fam")
    n = cfg["n"]
    if "conts" in cfg:
        # L2Env-based modules name the containers they stand for; families without a readiness record
        # (the caller's waker is passed through) behave identically in all three builds
        builds = ["std", "alloc", "none"] if not cfg.get("rdy") else (["std"] if cfg.get("sub") else ["alloc", "none"])
        if fam == "co":
            builds = [cfg["feat"]]
        out = []
        for b in builds:
            for cont in cfg["conts"]:
                if b == "none" and (cont == "vec" or cfg.get("group") or fam.startswith("nest")):
                    continue
                if cont == "tup" and n == 0 and fam not in ("join", "try_join", "merge"):
                    continue
                out.append((fam, cont, n, b))
                if cont == "tup" and n == 2 and fam in ("join", "race", "merge", "zip", "chain"):
                    out.append((fam, "ext", n, b))
        return out
    variant = cfg.get("variant", "arr")
    builds = ["std"] if cfg.get("mode") == "std" else ["alloc", "none"]
    out = []
    for b in builds:
        if variant == "tup":
            out.append((fam, "tup", n, b))
            if n == 2 and fam in ("join", "race", "merge", "zip", "chain"):
                out.append((fam, "ext", n, b))
        else:
            out.append((fam, "arr", n, b))
            if b != "none":
                out.append((fam, "vec", n, b))
    return out


def hist_to_vector(cfg, hist, vid, fam, cont, n):
    nch = max(n, 1) if fam == "co" else n
    for e in hist:
        if "c" in e and e["e"] in ("cpoll", "insert") and e["c"] >= nch:
            nch = e["c"] + 1
    never = set(cfg.get("never", []))
    scripts = [dict(steps=[], tail=("never" if c in never else "done"), tail_ok=True) for c in range(nch)]
    if cfg.get("stream") or fam == "co":
        # what the scripted streams report as size_hint (four valid kinds, script.rs); nothing observable may depend on it
        hk = int(hashlib.sha1(str(vid).encode()).hexdigest(), 16)
        for c in range(nch):
            scripts[c]["hint"] = (hk >> (2 * (c % 16))) & 3
    cmds = []
    cur_fires = []
    prev = None
    skip_ins = 0
    for e in hist:
        k = e["e"]
        if k == "poll":
            cmds.append(["poll"])
        elif k == "fire":
            if e["inp"]:
                cur_fires.append([e["c"], e["k"]])
            else:
                cmds.append(["fire", e["c"], e["k"]])
        elif k == "cpoll":
            cur_fires = []
        elif k == "cret":
            st = dict(r=RMAP[e["r"]])
            if not e["ok"]:
                st["ok"] = False
            if cur_fires:
                st["fires"] = cur_fires
            scripts[e["c"]]["steps"].append(st)
            cur_fires = []
        elif k == "drop":
            if not (prev and prev["e"] == "panic"):
                cmds.append(["drop"])
        elif k == "quiesce":
            cmds.append(["settle"])
        elif k in ("fromiter", "extend"):
            kind = 0 if e["hint"] == e["n"] else (1 if e["hint"] == 0 else 2)
            cmds.append([k, e["n"], kind])
            skip_ins = e["n"]
        elif k == "insert" and skip_ins > 0:
            skip_ins -= 1          # a member handed to FromIterator: part of the `fromiter` command
        elif k == "insert":
            if e.get("key", 0) < 0:
                # members added through `extend` (no key is reported): consecutive ones form one call
                if cmds and cmds[-1][0] == "extend" and prev and prev["e"] == "insert" and prev.get("key", 0) < 0:
                    cmds[-1][1] += 1
                else:
                    cmds.append(["extend", 1])
            else:
                cmds.append(["insert"])
        elif k == "remove":
            cmds.append(["removekey", e["key"]])
        elif k == "reserve":
            cmds.append(["reserve", e["n"]])
        elif k == "repoll":
            cmds.append(["repoll"])
        prev = e
    v = dict(id=vid, fam=fam, cont=cont, n=n, scripts=scripts, cmds=cmds, x=cfg.get("x", -1))
    if fam == "co":
        v["stack"] = [a["k"] if a["k"] in ("map", "enumerate") else [a["k"], a["n"]] for a in cfg["stack"]]
        v["term"] = cfg["term"]
        v["limit"] = cfg.get("limit", 0)
        v["src"] = cont
        if cont == "vec":
            v["scripts"][0]["steps"] = []      # the items of a Vec source are handed in at construction
    return v


SKIP_REAL = {"new", "built", "end"}


def norm_real(lines):
    out = []
    for l in lines:
        e = json.loads(l)
        if e["e"] in SKIP_REAL:
            continue
        out.append(e)
    return out


def first_diff(pred, real):
    for i in range(max(len(pred), len(real))):
        a = pred[i] if i < len(pred) else None
        b = real[i] if i < len(real) else None
        if a != b:
            return dict(pos=i, predicted=a, real=b)
    return None


def apalache_inductive(env):
    """Inductive check (Apalache) of the core of the sub-waker protocol, specs/apalache/ReadinessProto.tla:
    Init => IndInv and IndInv /\\ Next => IndInv', for N <= 5 children and both loop shapes: the no-lost-wake-up
    invariant then holds after any number of polls and wake-ups (the TLC runs bound both).  Spec-only, cached."""
    SPECS = env["SPECS"]
    d = os.path.join(SPECS, "apalache")
    root = os.path.dirname(SPECS)
    cdir = os.path.join(root, "work", "l2cache")
    os.makedirs(cdir, exist_ok=True)
    h = hashlib.sha1(open(os.path.join(d, "ReadinessProto.tla"), "rb").read()).hexdigest()[:16]
    cpath = os.path.join(cdir, "apalache_ReadinessProto_%s.json" % h)
    if os.path.exists(cpath) and not os.environ.get("VERIF_NO_L2_CACHE"):
        r = json.load(open(cpath))
        r["reused_from_cache"] = True
        return r
    out_dir = os.path.join(env["WORK"], "apalache_out_%d" % os.getpid())
    res = dict(module="ReadinessProto", kind="inductive invariant (Apalache)", obligations=[])
    t0 = time.time()
    ok = True
    for name, args in (("Init => IndInv", ["--init=Init", "--length=0"]), ("IndInv /\\ Next => IndInv'", ["--init=IndInit", "--length=1"])):
        p = subprocess.run(["apalache-mc", "check", "--cinit=CInit", "--inv=IndInv", "--out-dir=" + out_dir] + args + ["ReadinessProto.tla"],
                           cwd=d, capture_output=True, text=True, timeout=1800)
        good = "The outcome is: NoError" in p.stdout
        res["obligations"].append(dict(obligation=name, discharged=good))
        ok = ok and good
        if not good:
            res["output_tail"] = p.stdout[-1500:]
    subprocess.run(["rm", "-rf", out_dir, os.path.join(d, "_apalache-out")])
    res.update(ok=ok, secs=round(time.time() - t0, 1), reused_from_cache=False,
               statement="NoLostWake: a set readiness bit of a child the scan has passed (or any set bit while parked) implies that the "
                         "waker of the most recent poll has been invoked, unless the consumer is about to poll again on its own (an item was just "
                         "returned, or the owner just inserted into a group); N <= 5; array-style and tuple-style loops, merge / StreamGroup re-arm, "
                         "zip's set_all_ready, group insert; unbounded polls / wake-ups")
    if ok:
        json.dump(res, open(cpath, "w"))
    return res


def tlaps_proof(env):
    """TLAPS proofs (tlapm) in specs/tlaps: ReadinessProof.tla (the no-lost-wake-up invariant of the sub-waker protocol is
    inductive for an ARBITRARY number of children; the Apalache check bounds N by 5, the TLC runs bound everything) and
    NestProof.tla (the same for a combinator nested in another one: inner bit => outer bit => caller woken).
    Spec-only, cached by the content of the modules."""
    SPECS = env["SPECS"]
    d = os.path.join(SPECS, "tlaps")
    root = os.path.dirname(SPECS)
    cdir = os.path.join(root, "work", "l2cache")
    os.makedirs(cdir, exist_ok=True)
    mods = ["ReadinessProof.tla", "NestProof.tla"]
    h = hashlib.sha1(b"".join(open(os.path.join(d, m), "rb").read() for m in mods)).hexdigest()[:16]
    cpath = os.path.join(cdir, "tlaps_proofs_%s.json" % h)
    if os.path.exists(cpath) and not os.environ.get("VERIF_NO_L2_CACHE"):
        r = json.load(open(cpath))
        r["reused_from_cache"] = True
        return r
    t0 = time.time()
    total, ok, per, tail = 0, True, {}, ""
    for mname in mods:
        subprocess.run(["rm", "-rf", os.path.join(d, ".tlacache")])
        p = subprocess.run(["tlapm", "--threads", "4", "--cleanfp", "--nofp", mname], cwd=d, capture_output=True, text=True, timeout=1800)
        out = p.stdout + p.stderr
        m = re.search(r"All (\d+) obligations? proved", out)
        good = bool(m) and p.returncode == 0
        per[mname] = int(m.group(1)) if m else 0
        total += per[mname]
        ok = ok and good
        if not good:
            tail = out[-1500:]
    subprocess.run(["rm", "-rf", os.path.join(d, ".tlacache")])
    res = dict(module="ReadinessProof, NestProof", kind="proof (TLAPS)", ok=ok, obligations=total, discharged=total if ok else 0,
               per_module=per, secs=round(time.time() - t0, 1), reused_from_cache=False,
               statement="ReadinessProof: THEOREM Spec => []NoLostWake for every N >= 1 (a set readiness bit of a child the scan has passed, or "
                         "any set bit while parked, implies that the waker of the most recent poll has been invoked, unless the consumer is about "
                         "to poll again on its own).  NestProof: THEOREM Spec => []NoLostWakeNested (inner bit => outer slot bit => caller woken) "
                         "for a combinator nested in another one, every N >= 1")
    if ok:
        json.dump(res, open(cpath, "w"))
    else:
        res["output_tail"] = tail
    return res


def prewarm(env, tier="quick"):
    """Model-check / export every L2 module once (spec-only work, shared by all checks through the cache)."""
    SPECS = env["SPECS"]
    jobs = []
    for mod, cfgs in MODULE_CFGS.items():
        mcmod = os.path.join(SPECS, cfgs["mc"])
        jobs.append(("mc", mod, mcmod, os.path.join(SPECS, cfgs["mc_" + tier]), dict(workers=4, xmx="6g", extra=["-coverage", "1"], timeout=7200, deque=False)))
        jobs.append(("live", mod, mcmod, os.path.join(SPECS, cfgs["live_" + tier]), dict(workers=4, xmx="6g", timeout=7200, deque=False)))
        jobs.append(("gen", mod, mcmod, os.path.join(SPECS, cfgs["gen_" + tier]), dict(workers=1, xmx="8g", timeout=7200, deque=False)))

    def one(j):
        kind, mod, mcmod, cfgfile, kw = j
        r, cached = cached_tlc(env, kind, mcmod, cfgfile, "warm_%s_%s" % (kind, mod), **kw)
        return kind, mod, r["ok"], r["states"], r["secs"], cached, r.get("out_tail", "")

    bad = []
    prf = tlaps_proof(env)
    env["log"]("  TLAPS ReadinessProof + NestProof: %d obligations, %s (%.1fs)" % (prf["obligations"], "all proved" if prf["ok"] else "ERROR", prf["secs"]))
    if not prf["ok"]:
        bad.append(("ReadinessProof", "proof", prf.get("output_tail", "")))
    ind = apalache_inductive(env)
    env["log"]("  Apalache ReadinessProto inductive invariant: %s (%.1fs)" % ("ok" if ind["ok"] else "ERROR", ind["secs"]))
    if not ind["ok"]:
        bad.append(("ReadinessProto", "inductive", ind.get("output_tail", "")))
    with cf.ThreadPoolExecutor(max_workers=4) as ex:
        for kind, mod, ok, states, secs, cached, tail in ex.map(one, jobs):
            env["log"]("  L2 %-9s %-5s states=%-8d %5.1fs %s%s" % (mod, kind, states, secs, "ok" if ok else "ERROR", " (cached)" if cached else ""))
            if not ok:
                bad.append((mod, kind, tail))
    return bad


# --------------------------------------------------------------------------- driver
def run_for_property(prop, tier, seed, plan, env):
    tlc, fcv, WORK, SPECS, log, ToolError = env["tlc"], env["fcv"], env["WORK"], env["SPECS"], env["log"], env["ToolError"]
    tracemon, split_runs = env["tracemon"], env["split_runs"]
    res = dict(states=0, transitions=0, models=[], mon_results=[], violations=[], replayed=0, conformance={}, drift=[], exhaustive=False)
    if prop == "C01":
        prf = tlaps_proof(env)
        res["models"].append(prf)
        if not prf["ok"]:
            raise ToolError("tlapm does not prove ReadinessProof.tla (a defect of the specification): %s" % prf.get("output_tail", "")[-800:])
        ind = apalache_inductive(env)
        res["models"].append(ind)
        if not ind["ok"]:
            raise ToolError("Apalache rejects the inductive invariant of ReadinessProto.tla (a defect of the specification): %s" % ind.get("output_tail", "")[-800:])
    modules = []
    for f in plan["fams"]:
        mods = FAMILY_MODULE.get(f) or []
        for mod in ([mods] if isinstance(mods, str) else mods):
            if mod not in modules:
                modules.append(mod)
    if not modules:
        return res
    ncpu = os.cpu_count() or 4
    for mod in modules:
        cfgs = MODULE_CFGS[mod]
        mcmod = os.path.join(SPECS, cfgs["mc"])
        # ---- 1. model checking (safety) --------------------------------------------------
        cfgfile = os.path.join(SPECS, cfgs["mc_" + tier])
        r, cached = cached_tlc(env, "mc", mcmod, cfgfile, "mc_%s_%s" % (prop, mod), workers=max(2, ncpu - 2), xmx="12g",
                               extra=["-coverage", "1"], timeout=7200, deque=False,
                               budget_s=(THOROUGH_BUDGET_S if tier == "thorough" else None))
        gen, dist, ok, cov = r["transitions"], r["states"], r["ok"], r["cov"]
        res["models"].append(dict(module=mod, config=os.path.basename(cfgfile), kind="safety", states=dist, transitions=gen,
                                  ok=ok, action_coverage=cov, secs=r["secs"], reused_from_cache=cached,
                                  complete=r.get("complete", True), depth_reached=r.get("depth_reached")))
        res["states"] += dist
        res["transitions"] += gen
        if not ok:
            # a counterexample in the specification alone is a defect of the model unless the real
            # code reproduces it (DESIGN.md 6): report as tool error with the TLC output
            path = os.path.join(WORK, "tlc_cex_%s_%s.txt" % (prop, mod))
            open(path, "w").write(r["out_tail"])
            raise ToolError("TLC reports an error in %s (%s); see %s\n%s" % (mod, os.path.basename(cfgfile), path, r["out_tail"][-1500:]))
        # vacuity: every action of the module must have been taken
        dead = [a for a, nn in cov.items() if nn == 0 and a not in ("Init",)]
        if dead and r.get("complete", True):
            raise ToolError("vacuity: actions never taken in %s: %s" % (mod, dead))
        res["exhaustive"] = res.get("exhaustive_all", True) and r.get("complete", True)
        res["exhaustive_all"] = res["exhaustive"]
        # ---- 2. liveness under fairness --------------------------------------------------
        lcfg = cfgs.get("live_" + tier)
        if lcfg and prop in LIVE_PROPS:
            r, cached = cached_tlc(env, "live", mcmod, os.path.join(SPECS, lcfg), "live_%s_%s" % (prop, mod),
                                   workers=max(2, ncpu - 2), xmx="12g", timeout=7200, deque=False)
            res["models"].append(dict(module=mod, config=lcfg, kind="liveness", states=r["states"], transitions=r["transitions"],
                                      ok=r["ok"], secs=r["secs"], reused_from_cache=cached))
            res["states"] += r["states"]
            res["transitions"] += r["transitions"]
            if not r["ok"]:
                path = os.path.join(WORK, "tlc_live_cex_%s_%s.txt" % (prop, mod))
                open(path, "w").write(r["out_tail"])
                raise ToolError("TLC reports a liveness error in %s; see %s\n%s" % (mod, path, r["out_tail"][-1500:]))
        # ---- 3. export behaviours --------------------------------------------------------
        gcfg = os.path.join(SPECS, cfgs["gen_" + tier])
        r, cached = cached_tlc(env, "gen", mcmod, gcfg, "gen_%s_%s" % (prop, mod), workers=1, xmx="8g", timeout=7200, deque=False,
                               budget_s=(600 if tier == "thorough" else None))
        if not r["ok"]:
            raise ToolError("TLC export run failed for %s:\n%s" % (mod, r["out_tail"][-1500:]))
        exported = r["exported"]
        n_exported = len(exported)
        gen_states, gen_trans, gen_secs = r["states"], r["transitions"], r["secs"]
        # keep memory bounded: replay a deterministic sample of at most EXPORT_CAP behaviours per module
        if len(exported) > EXPORT_CAP:
            step = len(exported) / float(EXPORT_CAP)
            exported = [exported[int(i * step)] for i in range(EXPORT_CAP)]
        r = None
        res["models"].append(dict(module=mod, config=os.path.basename(gcfg), kind="export", states=gen_states, transitions=gen_trans,
                                  behaviours_exported=n_exported, behaviours_used=len(exported), secs=gen_secs, reused_from_cache=cached))
        if not exported:
            raise ToolError("no behaviours exported from %s" % mod)
        # ---- 4. replay on the real code --------------------------------------------------
        fams = set(plan["fams"])
        if "wait_until" in fams:
            fams.add("wait_until_stream")
        if "nest" in fams:
            fams.add("nest_join_join")
            fams.add("nest_merge_merge")
            fams.add("nest_race_join")
            fams.add("nest_chain_merge")
            fams.add("nest_group_join")
            fams.add("nest_merge_groups")
        by_build = {}
        pred = {}
        for i, ex in enumerate(exported):
            for (fam, cont, n, b) in containers_for(ex["cfg"]):
                if fam not in fams or b not in plan["configs"]:
                    continue
                vid = "l2-%s-%d-%s-%s-%s" % (mod, i, fam, cont, b)
                v = hist_to_vector(ex["cfg"], ex["hist"], vid, fam, cont, n)
                by_build.setdefault(b, []).append(v)
                pred[vid] = ex["hist"]
        # cross-cutting properties replay a deterministic sample per module and build in the quick tier
        cap = None
        if tier == "quick" and len(modules) > 2:
            cap = 3000
        elif tier == "thorough":
            cap = 20000 if len(modules) > 2 else 100000
        jobs = []
        for b, vs in by_build.items():
            if cap and len(vs) > cap:
                step = len(vs) / float(cap)
                vs = [vs[int(i * step)] for i in range(cap)]
            nsh = max(1, len(vs) // 3000 + 1)        # <= 3000 runs per TraceMon JVM
            for sh in range(nsh):
                part = vs[sh::nsh]
                tag = "%s_l2_%s_%s_%d" % (prop, mod, b, sh)
                vf = os.path.join(WORK, "vec_%s.ndjson" % tag)
                with open(vf, "w") as f:
                    for v in part:
                        f.write(json.dumps(v) + "\n")
                jobs.append((b, vf, tag, len(part)))

        def do(job):
            b, vf, tag, cnt = job
            trace = os.path.join(WORK, "trace_%s.ndjson" % tag)
            p = subprocess.run([fcv(b), "run", "--vectors", vf, "--out", trace], capture_output=True, text=True, timeout=3600)
            crashed = p.returncode != 0
            viols, runs, stats = tracemon(trace, tag)
            ndiff = 0
            firstd = None
            nrun = 0
            if mod in INEXACT:
                import tracel2
                truns, _sk = tracel2.convert([trace])
                tv = tracel2.validate(truns, WORK, tag, workers=2)
                for _m, r in tv.items():
                    nrun += r["runs"]
                    ndiff += r["rejected"]
                    if r["first_rejections"] and firstd is None:
                        firstd = dict(id=r["first_rejections"][0]["id"], pos=r["first_rejections"][0]["matched"],
                                      predicted="(any L2 behaviour)", real=r["first_rejections"][0]["next_event"])
            else:
              for rid, lines in split_runs(trace):
                nrun += 1
                d = first_diff(pred.get(rid, []), norm_real(lines))
                if d is not None:
                    ndiff += 1
                    if firstd is None:
                        firstd = dict(id=rid, **d)
            return (b, None, "l2", cnt, 0, tag), trace, vf, viols, runs, stats, crashed, ndiff, firstd, nrun

        total, drifted = 0, 0
        with cf.ThreadPoolExecutor(max_workers=max(2, min(8, ncpu - 2))) as exr:
            for r in exr.map(do, jobs):
                job, trace, vf, viols, runs, stats, crashed, ndiff, firstd, nrun = r
                res["mon_results"].append((job, trace, vf, viols, runs, stats, crashed))
                total += nrun
                drifted += ndiff
                if firstd is not None and len(res["drift"]) < 5:
                    res["drift"].append(dict(module=mod, **firstd))
        pred.clear()
        by_build.clear()
        exported = None
        res["replayed"] += total
        res["conformance"][mod] = dict(vectors=total, identical_to_prediction=total - drifted, drift=drifted,
                                       criterion="accepted by TLC trace validation against the L2 spec" if mod in INEXACT
                                       else "recorded events identical to the exported L2 behaviour")
        if drifted:
            print("MODEL-DRIFT family=%s vectors=%d first_diff=%s" % (mod, drifted, json.dumps(res["drift"][0])[:600]))
    return res
