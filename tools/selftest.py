#!/usr/bin/env python3
"""Self-validation of the machinery (development-time, not a registered check; DESIGN.md 10).

  selftest.py traces     corrupt recorded traces of the real code field by field and show that the binding notices:
                         TraceMon (property monitors) and/or Trace_<Module> (L2 conformance) must reject each corruption,
                         and must accept the uncorrupted trace
  selftest.py specs      one-token mutants of the L2 specifications: TLC must reject each of them (by a monitor or a
                         structural invariant), i.e. the model checking is not vacuous
Results are printed as a table and written to work/selftest_<mode>.json.
"""
import copy
import json
import os
import re
import shutil
import subprocess
import sys

ROOT = os.path.dirname(os.path.dirname(os.path.abspath(__file__)))
sys.path.insert(0, os.path.join(ROOT, "tools"))
import check      # noqa: E402
import tracel2    # noqa: E402

WORK = os.path.join(ROOT, "work")
SPECS = os.path.join(ROOT, "specs")


def record(spec, profile, count, seed, cfg="std"):
    out = os.path.join(WORK, "st_base.ndjson")
    subprocess.run([check.fcv(cfg), "random", "--spec", spec, "--count", str(count), "--seed", str(seed), "--profile", profile,
                    "--out", out], check=True, capture_output=True)
    return list(tracel2.split_runs(out))


def write_runs(runs, path):
    with open(path, "w") as f:
        for r in runs:
            for e in r:
                f.write(json.dumps(e) + "\n")


def verdicts(runs, tag):
    """-> (set of properties the monitors flag, number of runs rejected by L2 trace validation)"""
    p = os.path.join(WORK, "st_%s.ndjson" % tag)
    write_runs(runs, p)
    viols, _, _ = check.tracemon(p, "st_" + tag)
    props = sorted({b[0] for v in viols for b in v["bad"]})
    truns, _ = tracel2.convert([p])
    tv = tracel2.validate(truns, WORK, "st_" + tag, workers=2, diag_max=0)
    rej = sum(r["rejected"] for r in tv.values())
    return props, rej


def first(run, pred):
    for i, e in enumerate(run):
        if pred(e):
            return i
    return None


CORRUPTIONS = [
    # (name, family spec, profile, how to corrupt one run, which monitor is expected (None: only L2 conformance))
    ("join: swap two outputs in the final ret", "join:arr:3", "wakeonly",
     lambda r: _edit(r, lambda e: e["e"] == "ret" and e["r"] == "ready" and len(e["out"]) == 3, lambda e: e.update(out=[e["out"][1], e["out"][0], e["out"][2]])), "C04"),
    ("join: delete the parent wake-up of a child's wake", "join:vec:3", "mixed",
     lambda r: _delete(r, lambda e: e["e"] == "pwake"), "C01"),
    ("join: duplicate a child drop", "join:tup:3", "mixed",
     lambda r: _dup(r, lambda e: e["e"] == "cdrop"), "C02"),
    ("merge: change the value of a yielded item", "merge:arr:3", "wakeonly",
     lambda r: _edit(r, lambda e: e["e"] == "ret" and e["r"] == "some", lambda e: e.update(v=e["v"] + 1)), "C08"),
    ("merge: an extra poll of a child that has ended", "merge:vec:2", "wakeonly",
     lambda r: _repoll_done(r), "C03"),
    ("zip: move a row's items around", "zip:arr:2", "wakeonly",
     lambda r: _edit(r, lambda e: e["e"] == "ret" and e["r"] == "some" and len(e["out"]) == 2, lambda e: e.update(out=e["out"][::-1])), "C09"),
    ("race: report a later child as the winner", "race:arr:3", "wakeonly",
     lambda r: _edit(r, lambda e: e["e"] == "ret" and e["r"] == "ready", lambda e: e.update(v=e["v"] + 1000)), "C06"),
    ("future_group: len() off by one in a view", "future_group:keyed:0", "ops",
     lambda r: _edit(r, lambda e: e["e"] == "view" and e["len"] > 0, lambda e: e.update(len=e["len"] - 1)), "C11"),
    ("stream_group: capacity reported one larger (monitors do not care, L2 does)", "stream_group:keyed:0", "ops",
     lambda r: _edit(r, lambda e: e["e"] == "view", lambda e: e.update(cap=e["cap"] + 1)), None),
    ("chain: poll order of two inputs exchanged (child ids swapped in one cpoll/cret pair)", "chain:arr:2", "wakeonly",
     lambda r: _edit(r, lambda e: e["e"] == "cpoll" and e["c"] == 0, lambda e: e.update(c=1)), "C10"),
    ("join: a child polled although its waker never fired (duplicate cpoll/cret of a pending child)", "join:arr:2", "wakeonly",
     lambda r: _dup_pair(r), "C16"),
    ("wait_until: the deadline's generation in a cpoll changed (waker identity: only L2 notices)", "wait_until:x:2", "mixed",
     lambda r: _edit(r, lambda e: e["e"] == "cpoll" and e.get("pw", -1) >= 0, lambda e: e.update(pw=e["pw"] + 1)), None),
]


def _edit(run, pred, fn):
    i = first(run, pred)
    if i is None:
        return None
    r = copy.deepcopy(run)
    fn(r[i])
    return r


def _delete(run, pred):
    i = first(run, pred)
    if i is None:
        return None
    r = copy.deepcopy(run)
    del r[i]
    return r


def _dup(run, pred):
    i = first(run, pred)
    if i is None:
        return None
    r = copy.deepcopy(run)
    r.insert(i, copy.deepcopy(r[i]))
    return r


def _repoll_done(run):
    # after a child's `none`, insert one more cpoll/cret(none) of it inside the same poll
    i = first(run, lambda e: e["e"] == "cret" and e["r"] == "none")
    if i is None or run[i + 1]["e"] == "ret":
        return None
    r = copy.deepcopy(run)
    c, k = r[i]["c"], r[i]["k"]
    r.insert(i + 1, dict(e="cpoll", c=c, k=k + 1, wid=next(e["wid"] for e in r if e["e"] == "cpoll" and e["c"] == c), pw=-1))
    r.insert(i + 2, dict(e="cret", c=c, k=k + 1, r="none", ok=True, v=-1))
    return r


def _dup_pair(run):
    i = first(run, lambda e: e["e"] == "cret" and e["r"] == "pending")
    if i is None:
        return None
    j = i + 1
    r = copy.deepcopy(run)
    cp = copy.deepcopy(r[i - 1])
    cr = copy.deepcopy(r[i])
    if cp["e"] != "cpoll":
        return None
    cp["k"] += 1
    cr["k"] += 1
    # renumber later polls of this child
    for e in r[j:]:
        if e.get("c") == cp["c"] and e["e"] in ("cpoll", "cret") and "k" in e:
            e["k"] += 1
    r.insert(j, cp)
    r.insert(j + 1, cr)
    return r


def traces():
    check.build(["std"])
    os.makedirs(WORK, exist_ok=True)
    rows = []
    for name, spec, profile, corrupt, expect in CORRUPTIONS:
        runs = record(spec, profile, 60, 11)
        base_props, base_rej = verdicts(runs, "base")
        done = False
        for idx, run in enumerate(runs):
            c = corrupt(run)
            if c is None:
                continue
            props, rej = verdicts([c], "mut")
            ok = (expect in props if expect else True) and (rej == 1 or expect is not None)
            rows.append(dict(corruption=name, family=spec, base_monitor_violations=base_props, base_l2_rejected=base_rej,
                             monitors_flag=props, l2_rejects=bool(rej), expected_monitor=expect, noticed=bool(props or rej), as_expected=ok))
            done = True
            break
        if not done:
            rows.append(dict(corruption=name, family=spec, error="no run offered the pattern"))
    for r in rows:
        print(json.dumps(r))
    json.dump(rows, open(os.path.join(WORK, "selftest_traces.json"), "w"), indent=1)
    bad = [r for r in rows if not r.get("as_expected") or r.get("base_monitor_violations") or r.get("base_l2_rejected")]
    print("selftest traces: %d corruptions, %d not as expected" % (len(rows), len(bad)))
    return 1 if bad else 0


SPEC_MUTANTS = [
    # (module, cfg, description, [literal text to find], [replacement])
    ("JoinLike", "quick", "join never stores the parent waker after the first poll (no set_waker)",
     ["/\\ parent' = gen  "], ["/\\ parent' = IF parent = -1 THEN gen ELSE parent  "]),
    ("JoinLike", "quick", "try_join error path marks the failing slot Ready instead of None (regression #155)",
     ["           /\\ st' = [st EXCEPT ![c] = \"N\"]\n           /\\ cnt' = IF Arr THEN cnt - 1 ELSE cnt + 1"],
     ["           /\\ st' = [st EXCEPT ![c] = \"R\"]\n           /\\ cnt' = IF Arr THEN cnt - 1 ELSE cnt + 1"]),
    ("Merge", "quick", "merge does not re-arm an input that yielded",
     ["/\\ rd' = RSet(rd, c)\n                 /\\ Ret(\"some\") /\\ UNCHANGED fs"], ["/\\ rd' = rd\n                 /\\ Ret(\"some\") /\\ UNCHANGED fs"]),
    ("Merge", "quick", "merge's start offset does not rotate (fairness)",
     ["!.offset = (fs.offset + 1) % N]"], ["!.offset = fs.offset]"]),
    ("Zip", "quick", "zip does not mark all inputs ready after a row", ["/\\ rd' = RSetAll(rd)"], ["/\\ rd' = rd"]),
    ("Zip", "quick", "zip polls an input whose item is already buffered", ["IF fs.st[i] = \"R\"\n"], ["IF FALSE\n"]),
    ("Race", "quick", "race_ok stores a failure at the completion count instead of the child's position",
     ["!.errs[c] = v"], ["!.errs[fs.completed] = v"]),
    ("Chain", "quick", "chain moves on to the next input when the current one is pending",
     ["CASE a.r = \"pending\" ->\n                 /\\ Ret(\"pending\") /\\ UNCHANGED fs"],
     ["CASE a.r = \"pending\" ->\n                 /\\ Ret(\"pending\") /\\ fs' = [fs EXCEPT !.index = IF @ + 1 < N THEN @ + 1 ELSE @]"]),
    ("WaitUntil", "quick", "wait_until polls the inner future one poll after the deadline resolved",
     ["/\\ fs' = [fs EXCEPT !.state = \"inner\"]\n                        /\\ pc' = \"scan\" /\\ NoRet"],
     ["/\\ fs' = [fs EXCEPT !.state = \"inner\"]\n                        /\\ Ret(\"pending\")"]),
    ("Groups", "quick", "insert does not mark the new member's slot ready", ["/\\ rd' = RSet(g[2], key) "], ["/\\ rd' = g[2] "]),
    ("Groups", "quick", "StreamGroup forgets to flush the key removal queue when an item is yielded",
     ["/\\ fs' = [fs EXCEPT !.keys = @ \\ Range(fs.queue), !.queue = <<>>, !.scan = <<>>]\n                 /\\ Ret(\"some\") /\\ UNCHANGED alive"],
     ["/\\ fs' = [fs EXCEPT !.scan = <<>>]\n                 /\\ Ret(\"some\") /\\ UNCHANGED alive"]),
    ("CoStream", "quick", "ForEach's send does not wait for a free slot",
     ["ELSE IF Limited /\\ f1.count >= cfg.limit"], ["ELSE IF FALSE /\\ f1.count >= cfg.limit"]),
    ("CoStream", "quick", "take neither refuses an item beyond its limit nor stops progress (the repaired take(0) defect)",
     ["IF c[i] >= Stack[i].n THEN [refused |-> TRUE", "IF TakeReached(fs) \\/ (Term"], ["IF FALSE THEN [refused |-> TRUE", "IF FALSE \\/ (Term"]),
    ("CoStream", "quick", "try_for_each swallows an error observed while waiting for a free slot",
     ["         ELSE \\* progress / send: remember the error, stop taking items; an item in hand is dropped\n              /\\ fs' = [f0 EXCEPT !.residual = val, !.phase = \"flush\", !.arm = \"none\", !.hand = NoItem]"],
     ["         ELSE \\* progress / send: remember the error, stop taking items; an item in hand is dropped\n              /\\ fs' = [f0 EXCEPT !.residual = IF ctx = \"bp\" THEN -1 ELSE val, !.phase = \"flush\", !.arm = \"none\", !.hand = NoItem]"]),
    ("NestRace", "quick", "the inner join of a nest keeps the waker of its first poll (no set_waker later): a fresh caller waker per poll loses the wake-up",
     ["LET ird1 == [fs.ird EXCEPT !.parent = CallerWaker] IN"], ["LET ird1 == [fs.ird EXCEPT !.parent = IF @[1] = \"none\" THEN CallerWaker ELSE @] IN"]),
    ("NestRace", "quick", "the losing inner join forgets the outputs it had already collected when it is dropped with the race (leak)",
     ["  MapSeq(SelectSeq(<<0, 1>>, LAMBDA i : fs.ist[i] = \"R\"), LAMBDA i : EvVdrop(fs.iout[i]))\n  \\o MapSeq(SelectSeq(<<0, 1>>, LAMBDA i : fs.ist[i] = \"P\")"],
     ["  MapSeq(SelectSeq(<<0, 1>>, LAMBDA i : fs.ist[i] = \"P\")"]),
    ("NestChain", "quick", "the inner merge of a chain does not re-arm an input that yielded (the chain's consumer polls again and finds nothing ready)",
     ["/\\ fs' = [fs EXCEPT !.ird = ISet(@, c), !.lvl = \"outer\"]"], ["/\\ fs' = [fs EXCEPT !.lvl = \"outer\"]"]),
    ("NestChain", "quick", "the chain polls its ended first input (the inner merge) again instead of moving on",
     ["/\\ fs' = [fs EXCEPT !.icomplete = @ + 1, !.ist[c] = \"N\", !.index = 1, !.lvl = \"outer\"]"],
     ["/\\ fs' = [fs EXCEPT !.icomplete = @ + 1, !.ist[c] = \"N\", !.lvl = \"outer\"]"]),
    ("NestGroup", "quick", "a leaf's wake-up marks its member's bit but does not reach the group's slot (broken chain member -> group)",
     ["/\\ fs' = [fs EXCEPT !.ird[mb] = RSet(@, c), !.ord = RSet(@, slot)]"], ["/\\ fs' = [fs EXCEPT !.ird[mb] = RSet(@, c)]"]),
]


def specs():
    rows = []
    tmp = os.path.join(WORK, "specmut")
    for mod, cfgname, desc, pat, rep in SPEC_MUTANTS:
        shutil.rmtree(tmp, ignore_errors=True)
        shutil.copytree(SPECS, tmp)
        p = os.path.join(tmp, mod + ".tla")
        s = open(p).read()
        pats = pat if isinstance(pat, list) else [pat]
        reps = rep if isinstance(rep, list) else [rep]
        s2, n = s, 0
        for pp, rr in zip(pats, reps):
            if pp in s2:
                s2 = s2.replace(pp, rr, 1)
                n += 1
        if n != len(pats):
            rows.append(dict(module=mod, mutant=desc, error="pattern not found"))
            print(json.dumps(rows[-1]))
            continue
        open(p, "w").write(s2)
        cmd = ["java", "-XX:+UseParallelGC", "-Xmx8g", "-cp", check.TLA_CP, "tlc2.TLC", "-workers", "8", "-metadir", os.path.join(tmp, "meta"),
               "-cleanup", "-noGenerateSpecTE", "-config", os.path.join(tmp, "MC_%s_%s.cfg" % (mod, cfgname)), os.path.join(tmp, "MC_%s.tla" % mod)]
        pr = subprocess.run(cmd, cwd=tmp, capture_output=True, text=True, timeout=1800)
        out = pr.stdout
        m = re.search(r"Error: Invariant (\w+) is violated", out)
        why = m.group(1) if m else ("parse/eval error" if "Error:" in out else None)
        bad = re.findall(r'<< "(C\d+|H00|P00)"', out)
        rows.append(dict(module=mod, mutant=desc, rejected=why is not None, by=why, monitor=sorted(set(bad))[:3]))
        print(json.dumps(rows[-1]))
    shutil.rmtree(tmp, ignore_errors=True)
    json.dump(rows, open(os.path.join(WORK, "selftest_specs.json"), "w"), indent=1)
    bad = [r for r in rows if not r.get("rejected")]
    print("selftest specs: %d mutants, %d not rejected" % (len(rows), len(bad)))
    return 1 if bad else 0


if __name__ == "__main__":
    sys.exit(traces() if sys.argv[1:] == ["traces"] else specs())
